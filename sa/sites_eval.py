"""Closed-term partial evaluator for the site factory modules (C16).

The site modules are table-building straight-line code whose only inputs are
`basic_evse`, `voltage` and the transformer capacities.  This evaluator
interprets the AST subset they use over an abstract network that records
`register_evse(...)` and `add_constraint(...)`.  `Current` values are linear
forms over station ids; capacities are kept symbolic (`Sym`, a linear form
with a constant term), so a result holds for every capacity value.

Nothing from /repo is imported or executed: this is constant propagation over
configuration code.  Syntax outside the subset raises AnalysisError."""
import ast
import math

from .core import AnalysisError, src


class Sym:
    """linear form  c + sum(coef_i * symbol_i)"""

    def __init__(self, const=0.0, terms=None):
        self.c = float(const)
        self.t = {k: v for k, v in (terms or {}).items() if v != 0}
        self.deps = frozenset()     # tainted parameters (see TFloat) this form was computed from

    @staticmethod
    def lift(x):
        if isinstance(x, Sym):
            return x
        if isinstance(x, bool) or not isinstance(x, (int, float)):
            raise AnalysisError(f"arithmetic between a symbolic capacity and {type(x).__name__}")
        return Sym(x)

    def __add__(s, o):
        o = Sym.lift(o)
        t = dict(s.t)
        for k, v in o.t.items():
            t[k] = t.get(k, 0) + v
        return Sym(s.c + o.c, t)
    __radd__ = __add__

    def __neg__(s):
        return s * -1

    def __sub__(s, o):
        return s + Sym.lift(o) * -1

    def __rsub__(s, o):
        return Sym.lift(o) + s * -1

    def __mul__(s, o):
        o = Sym.lift(o)
        if o.t and s.t:
            raise AnalysisError("product of two symbolic quantities (non-linear limit)")
        if o.t:
            s, o = o, s
        return Sym(s.c * o.c, {k: v * o.c for k, v in s.t.items()})
    __rmul__ = __mul__

    def __truediv__(s, o):
        o = Sym.lift(o)
        if o.t:
            raise AnalysisError("division by a symbolic quantity")
        if o.c == 0:
            raise AnalysisError("division by zero in a limit expression")
        return s * (1.0 / o.c)

    def __rtruediv__(s, o):
        raise AnalysisError("division by a symbolic quantity")

    def __repr__(s):
        parts = [f"{v:.6g}*{k}" for k, v in sorted(s.t.items())]
        if s.c or not parts:
            parts.insert(0, f"{s.c:g}")
        return " + ".join(parts)


class TFloat(float):
    """a concrete number that was computed from a tainted factory parameter (e.g. `voltage`): the value is one probe, `deps`
    names the parameters it depends on"""

    def __new__(cls, v, deps=()):
        o = float.__new__(cls, v)
        o.deps = frozenset(deps)
        return o


def deps_of(*xs):
    d = frozenset()
    for x in xs:
        d |= getattr(x, "deps", frozenset())
    return d


def with_deps(v, deps):
    if not deps:
        return v
    if isinstance(v, Sym):
        v.deps = deps_of(v) | deps
        return v
    if isinstance(v, bool) or not isinstance(v, (int, float)):
        return v
    return TFloat(v, deps)


class Cur:
    """abstract Current: {station id: coefficient}"""

    def __init__(self, coef):
        self.coef = dict(coef)

    def __add__(s, o):
        if not isinstance(o, Cur):
            raise AnalysisError("Current + non-Current")
        c = dict(s.coef)
        for k, v in o.coef.items():
            c[k] = c.get(k, 0) + v
        return Cur(c)

    def __sub__(s, o):
        if not isinstance(o, Cur):
            raise AnalysisError("Current - non-Current")
        return s + o.scale(-1)

    def scale(s, f):
        if isinstance(f, Sym):
            raise AnalysisError("Current scaled by a symbolic quantity")
        return Cur({k: v * f for k, v in s.coef.items()})


class Net:
    def __init__(self):
        self.evses = []   # (station id, type string, voltage, angle)
        self.cons = []    # (name, Cur, limit)


class _NT(tuple):
    """instance of a namedtuple class defined in a site module"""
    def __new__(cls, fields, values):
        o = super().__new__(cls, values)
        o.fields = tuple(fields)
        return o


class _Ret(Exception):
    def __init__(self, v):
        self.v = v


class _Closure:
    def __init__(self, fn, env):
        self.fn, self.env = fn, env


_MAXSTEPS = 200000


class Evaluator:
    def __init__(self, module_tree, module_name, sig_register, sig_constraint, sig_evse):
        self.module = module_name
        self.funcs = {}
        for n in module_tree.body:
            if isinstance(n, ast.FunctionDef):
                self.funcs[n.name] = n
        self.sig_register, self.sig_constraint, self.sig_evse = sig_register, sig_constraint, sig_evse
        self.steps = 0
        self.nets = []
        self.repo = None
        self.consts = {}          # module-level simple assignments, evaluated lazily in the module's own scope
        self._const_cache = {}
        self._tree = module_tree
        for n in module_tree.body:
            if isinstance(n, ast.Assign) and len(n.targets) == 1 and isinstance(n.targets[0], ast.Name):
                self.consts[n.targets[0].id] = n.value
            elif isinstance(n, ast.AnnAssign) and isinstance(n.target, ast.Name) and n.value is not None:
                self.consts[n.target.id] = n.value
            elif isinstance(n, ast.ClassDef) and len(n.bases) == 1 and isinstance(n.bases[0], ast.Call) and not n.keywords \
                    and (getattr(n.bases[0].func, "id", None) == "namedtuple" or getattr(n.bases[0].func, "attr", None) == "namedtuple") \
                    and all(isinstance(b, ast.Expr) and isinstance(b.value, ast.Constant) or
                            (isinstance(b, ast.Assign) and len(b.targets) == 1 and getattr(b.targets[0], "id", None) == "__slots__") or isinstance(b, ast.Pass)
                            for b in n.body):
                # class P(namedtuple("P", [...])): docstring / __slots__ only  ==  the namedtuple class itself
                self.consts[n.name] = n.bases[0]

    def link_imports(self, repo):
        """names imported from sibling modules of the package (`from ._shared import helper, CONST` / `from .x import *`): the helper
        functions and constants of those modules are evaluated like the module's own (a name defined here wins)"""
        import posixpath
        seen = {self.module}
        work = [(self.module, self._tree)]
        while work:
            rel, tree = work.pop()
            for n in tree.body:
                if not (isinstance(n, ast.ImportFrom) and n.level and n.level >= 1):
                    continue
                base = posixpath.dirname(rel)
                for _ in range(n.level - 1):
                    base = posixpath.dirname(base)
                cand = posixpath.join(base, *(n.module.split(".") if n.module else [])) + ".py"
                sub = repo.trees.get(cand)
                if sub is None or "/sites/" not in cand:
                    continue                      # only sibling site modules are interpreted; the network / model classes stay abstract
                names = {a.name: (a.asname or a.name) for a in n.names}
                star = "*" in names
                for st in sub.body:
                    if isinstance(st, ast.FunctionDef) and (star or st.name in names):
                        self.funcs.setdefault(names.get(st.name, st.name), st)
                    elif isinstance(st, ast.Assign) and len(st.targets) == 1 and isinstance(st.targets[0], ast.Name) and (star or st.targets[0].id in names):
                        self.consts.setdefault(names.get(st.targets[0].id, st.targets[0].id), st.value)
                # free names of the imported helpers resolve in their own module: make that module's top level visible as a fallback
                for st in sub.body:
                    if isinstance(st, ast.FunctionDef):
                        self.funcs.setdefault(st.name, st)
                    elif isinstance(st, ast.Assign) and len(st.targets) == 1 and isinstance(st.targets[0], ast.Name):
                        self.consts.setdefault(st.targets[0].id, st.value)
                if cand not in seen:
                    seen.add(cand)
                    work.append((cand, sub))

    def fail(self, node, why):
        raise AnalysisError(f"{self.module}: site evaluator: {why}: `{src(node, 80)}` (line {getattr(node, 'lineno', '?')})")

    # -- functions
    def call_fn(self, fn, args, kwargs, closure):
        env = dict(closure)
        a = fn.args
        if a.kwarg or a.posonlyargs:
            self.fail(fn, "**kwargs / positional-only parameters in a site helper")
        params = [x.arg for x in a.args]
        if a.vararg:
            env[a.vararg.arg] = tuple(args[len(params):])
            args = args[:len(params)]
        for p, d in zip(params[len(params) - len(a.defaults):], a.defaults):
            env[p] = self.ex(d, closure)
        for p, d in zip(a.kwonlyargs, a.kw_defaults):
            if d is not None:
                env[p.arg] = self.ex(d, closure)
        if len(args) > len(params):
            self.fail(fn, "too many positional arguments")
        for p, v in zip(params, args):
            env[p] = v
        for k, v in kwargs.items():
            if k not in params and k not in [x.arg for x in a.kwonlyargs]:
                self.fail(fn, f"unknown keyword {k}")
            env[k] = v
        for p in params:
            if p not in env:
                self.fail(fn, f"parameter {p} unbound")
        if isinstance(fn, ast.Lambda):
            return self.ex(fn.body, env)
        try:
            self.block(fn.body, env)
        except _Ret as r:
            return r.v
        return None

    def block(self, stmts, env):
        for s in stmts:
            self.st(s, env)

    def assign(self, t, v, env):
        if isinstance(t, ast.Name):
            env[t.id] = v
        elif isinstance(t, ast.Subscript):
            self.ex(t.value, env)[self.ex(t.slice, env)] = v
        elif isinstance(t, (ast.Tuple, ast.List)):
            vs = list(v)
            if len(vs) != len(t.elts):
                self.fail(t, "unpacking arity")
            for x, y in zip(t.elts, vs):
                self.assign(x, y, env)
        else:
            self.fail(t, "assignment target outside the subset")

    def st(self, s, env):
        self.steps += 1
        if self.steps > _MAXSTEPS:
            self.fail(s, "evaluation budget exceeded")
        if isinstance(s, ast.Expr):
            if isinstance(s.value, ast.Constant):
                return
            self.ex(s.value, env)
        elif isinstance(s, ast.Assign):
            v = self.ex(s.value, env)
            for t in s.targets:
                self.assign(t, v, env)
        elif isinstance(s, ast.AnnAssign):
            if s.value is not None:
                self.assign(s.target, self.ex(s.value, env), env)
        elif isinstance(s, ast.AugAssign):
            cur = self.ex(ast.copy_location(_load(s.target), s), env)
            rhs = self.ex(s.value, env)
            if isinstance(cur, Cur) and not getattr(s, "from_binop", False):
                v = self.inplace_current(s.op, cur, rhs, s)
            else:
                v = self.binop(s.op, cur, rhs, s)
            self.assign(s.target, v, env)
        elif isinstance(s, ast.If):
            self.block(s.body if self.truth(self.ex(s.test, env), s.test) else s.orelse, env)
        elif isinstance(s, ast.For):
            for x in self.iterate(self.ex(s.iter, env), s.iter):
                self.assign(s.target, x, env)
                self.block(s.body, env)
            if s.orelse:
                self.block(s.orelse, env)
        elif isinstance(s, ast.FunctionDef):
            env[s.name] = _Closure(s, env)
        elif isinstance(s, ast.Return):
            raise _Ret(self.ex(s.value, env) if s.value else None)
        elif isinstance(s, ast.Pass):
            return
        elif isinstance(s, ast.Raise):
            self.fail(s, "the factory raises on this configuration")
        elif isinstance(s, ast.Assert):
            if not self.ex(s.test, env):
                self.fail(s, "the factory's assertion fails on this configuration")
        else:
            self.fail(s, f"statement kind {type(s).__name__} outside the subset")

    def truth(self, v, node):
        if isinstance(v, (Sym, Cur)):
            self.fail(node, "branch on a symbolic quantity")
        return bool(v)

    def iterate(self, v, node):
        if isinstance(v, (list, tuple, str, dict, range, set)):
            return list(v)
        self.fail(node, "iteration over a non-literal")

    def inplace_current(self, op, l, r, node):
        """`c += d` on a Current.  Current defines no in-place operators (checked on the analysed tree), so pandas' Series.__iadd__
        runs: it computes type(self).__add__(self, other) and then updates *the left object in place, re-indexed like itself* -
        stations only the right operand names are dropped, and every other name bound to the left object sees the change."""
        names = {ast.Add: "__iadd__", ast.Sub: "__isub__", ast.Mult: "__imul__", ast.Div: "__itruediv__"}
        nm = names.get(type(op))
        if nm is None:
            self.fail(node, "in-place operator on Current outside the algebra")
        ci = self.repo.cls("Current") if self.repo is not None else None
        if ci is not None and nm in getattr(ci, "methods", {}):
            self.fail(node, f"Current.{nm} is defined: its in-place semantics are not modelled")
        res = self.binop(op, l, r, node)
        l.coef = {k: res.coef.get(k, 0) for k in l.coef}
        return l

    def binop(self, op, l, r, node):
        if isinstance(l, Cur) or isinstance(r, Cur):
            if isinstance(op, ast.Add):
                return l + r if isinstance(l, Cur) else self.fail(node, "non-Current + Current")
            if isinstance(op, ast.Sub):
                return l - r if isinstance(l, Cur) else self.fail(node, "non-Current - Current")
            if isinstance(op, ast.Mult):
                return r.scale(l) if isinstance(r, Cur) and not isinstance(l, Cur) else (
                    l.scale(r) if not isinstance(r, Cur) else self.fail(node, "Current * Current"))
            if isinstance(op, ast.Div) and isinstance(l, Cur) and not isinstance(r, (Cur, Sym)):
                return l.scale(1.0 / r)
            self.fail(node, "operator on Current outside the algebra")
        if isinstance(l, (list, tuple)) and isinstance(op, ast.Add) and type(l) is type(r):
            return l + r
        if isinstance(l, (list, str)) and isinstance(op, ast.Mult) and isinstance(r, int):
            return l * r
        if isinstance(l, str) and isinstance(op, ast.Add) and isinstance(r, str):
            return l + r
        if isinstance(l, str) and isinstance(op, ast.Mod):
            return l % r
        dp = deps_of(l, r)
        if dp:
            return with_deps(self.binop(op, _untaint(l), _untaint(r), node), dp)
        if isinstance(l, Sym) or isinstance(r, Sym):
            l, r = Sym.lift(l), Sym.lift(r)
        num = (int, float, Sym)
        if not (isinstance(l, num) and isinstance(r, num)) or isinstance(l, bool) or isinstance(r, bool):
            self.fail(node, "arithmetic on non-numbers")
        try:
            if isinstance(op, ast.Add):
                return l + r
            if isinstance(op, ast.Sub):
                return l - r
            if isinstance(op, ast.Mult):
                return l * r
            if isinstance(op, ast.Div):
                return l / r
            if isinstance(op, ast.FloorDiv) and not isinstance(l, Sym) and not isinstance(r, Sym):
                return l // r
            if isinstance(op, ast.Mod) and not isinstance(l, Sym) and not isinstance(r, Sym):
                return l % r
            if isinstance(op, ast.Pow) and not isinstance(l, Sym) and not isinstance(r, Sym):
                return l ** r
        except ZeroDivisionError:
            self.fail(node, "division by zero")
        self.fail(node, "operator outside the subset")

    def ex(self, e, env):
        self.steps += 1
        if self.steps > _MAXSTEPS:
            self.fail(e, "evaluation budget exceeded")
        if isinstance(e, ast.Constant):
            return e.value
        if isinstance(e, ast.Name):
            if e.id in env:
                return env[e.id]
            if e.id in self.funcs:
                return _Closure(self.funcs[e.id], {})
            if e.id in self.consts:
                if e.id not in self._const_cache:
                    self._const_cache[e.id] = ("pending",)
                    self._const_cache[e.id] = self.ex(self.consts[e.id], {})
                elif self._const_cache[e.id] == ("pending",):
                    self.fail(e, f"module constant {e.id} defined in terms of itself")
                return self._const_cache[e.id]
            if e.id == "namedtuple":
                return ("builtin", "namedtuple")
            if e.id in ("ChargingNetwork", "Current", "get_evse_by_type", "dict", "print", "range", "len", "str", "list", "tuple",
                        "enumerate", "zip", "sorted", "int", "float", "set", "reversed", "abs", "min", "max", "sum", "callable", "isinstance", "frozenset",
                        "any", "all", "bool", "type"):
                return ("builtin", e.id)
            if e.id in ("np", "numpy", "math"):
                return ("mathmod",)
            if e.id in ("True", "False", "None"):
                return {"True": True, "False": False, "None": None}[e.id]
            self.fail(e, f"unknown name {e.id}")
        if isinstance(e, (ast.List, ast.Tuple)):
            out_ = []
            for x in e.elts:
                if isinstance(x, ast.Starred):
                    out_.extend(list(self.ex(x.value, env)))          # [*a, *b]
                else:
                    out_.append(self.ex(x, env))
            return out_ if isinstance(e, ast.List) else tuple(out_)
        if isinstance(e, ast.Set):
            return set(self.ex(x, env) for x in e.elts)
        if isinstance(e, ast.Dict):
            if any(k is None for k in e.keys):
                self.fail(e, "dict unpacking")
            return {self.ex(k, env): self.ex(v, env) for k, v in zip(e.keys, e.values)}
        if isinstance(e, (ast.ListComp, ast.DictComp, ast.SetComp, ast.GeneratorExp)):
            return self.comp(e, env)
        if isinstance(e, ast.JoinedStr):
            out = ""
            for v in e.values:
                if isinstance(v, ast.Constant):
                    out += str(v.value)
                elif isinstance(v, ast.FormattedValue):
                    val = self.ex(v.value, env)
                    spec = self.ex(v.format_spec, env) if v.format_spec is not None else ""
                    if isinstance(val, (Sym, Cur)):
                        self.fail(e, "symbolic value in a string")
                    out += format(val, spec)
            return out
        if isinstance(e, ast.Subscript):
            base = self.ex(e.value, env)
            if isinstance(e.slice, ast.Slice):
                lo = self.ex(e.slice.lower, env) if e.slice.lower is not None else None
                hi = self.ex(e.slice.upper, env) if e.slice.upper is not None else None
                st = self.ex(e.slice.step, env) if e.slice.step is not None else None
                return base[lo:hi:st]
            try:
                return base[self.ex(e.slice, env)]
            except (KeyError, IndexError, TypeError):
                self.fail(e, "subscript fails at construction time")
        if isinstance(e, ast.UnaryOp):
            v = self.ex(e.operand, env)
            if isinstance(e.op, ast.USub):
                return v.scale(-1) if isinstance(v, Cur) else with_deps(-_untaint(v), deps_of(v))
            if isinstance(e.op, ast.UAdd):
                return v
            if isinstance(e.op, ast.Not):
                return not self.truth(v, e)
        if isinstance(e, ast.BoolOp):
            v = None
            for x in e.values:
                v = self.ex(x, env)
                t = self.truth(v, x)
                if isinstance(e.op, ast.And) and not t:
                    return v
                if isinstance(e.op, ast.Or) and t:
                    return v
            return v
        if isinstance(e, ast.IfExp):
            return self.ex(e.body if self.truth(self.ex(e.test, env), e.test) else e.orelse, env)
        if isinstance(e, ast.Compare):
            l = self.ex(e.left, env)
            for op, c in zip(e.ops, e.comparators):
                r = self.ex(c, env)
                if isinstance(op, (ast.Is, ast.IsNot)) and (l is None or r is None):
                    ok = (l is r) == isinstance(op, ast.Is)         # identity with None is decided for symbolic values too
                    if not ok:
                        return False
                    l = r
                    continue
                if isinstance(l, (Sym, Cur)) or isinstance(r, (Sym, Cur)):
                    self.fail(e, "comparison of a symbolic quantity")
                try:
                    ok = {ast.In: lambda a, b: a in b, ast.NotIn: lambda a, b: a not in b, ast.Eq: lambda a, b: a == b,
                          ast.NotEq: lambda a, b: a != b, ast.Lt: lambda a, b: a < b, ast.LtE: lambda a, b: a <= b,
                          ast.Gt: lambda a, b: a > b, ast.GtE: lambda a, b: a >= b, ast.Is: lambda a, b: a is b,
                          ast.IsNot: lambda a, b: a is not b}[type(op)](l, r)
                except TypeError:
                    self.fail(e, "comparison fails at construction time")
                if not ok:
                    return False
                l = r
            return True
        if isinstance(e, ast.BinOp):
            return self.binop(e.op, self.ex(e.left, env), self.ex(e.right, env), e)
        if isinstance(e, ast.Attribute):
            base = self.ex(e.value, env)
            if isinstance(base, _NT) and e.attr in base.fields:
                return base[base.fields.index(e.attr)]
            return ("attr", base, e.attr)
        if isinstance(e, ast.Call):
            return self.call(e, env)
        if isinstance(e, ast.Lambda):
            return _Closure(e, env)
        self.fail(e, f"expression kind {type(e).__name__} outside the subset")

    def comp(self, e, env):
        out = [] if not isinstance(e, ast.DictComp) else {}

        def rec(i, env2):
            if i == len(e.generators):
                if isinstance(e, ast.DictComp):
                    out[self.ex(e.key, env2)] = self.ex(e.value, env2)
                else:
                    out.append(self.ex(e.elt, env2))
                return
            g = e.generators[i]
            for x in self.iterate(self.ex(g.iter, env2), g.iter):
                env3 = dict(env2)
                self.assign(g.target, x, env3)
                if all(self.truth(self.ex(c, env3), c) for c in g.ifs):
                    rec(i + 1, env3)
        rec(0, env)
        if isinstance(e, ast.SetComp):
            return set(out)
        return out

    def bind(self, sig, args, kw, node):
        out = {}
        if len(args) > len(sig):
            self.fail(node, "too many arguments")
        for p, a in zip(sig, args):
            out[p] = a
        for k, v in kw.items():
            if k not in sig:
                self.fail(node, f"unknown keyword {k}")
            out[k] = v
        return out

    def call(self, e, env):
        if any(k.arg is None for k in e.keywords):
            self.fail(e, "**-arguments")
        f = self.ex(e.func, env)
        args = []
        for a in e.args:
            if isinstance(a, ast.Starred):
                v = self.ex(a.value, env)
                if not isinstance(v, (list, tuple)):
                    self.fail(e, "star-argument is not a list / tuple at construction time")
                args += list(v)
            else:
                args.append(self.ex(a, env))
        kw = {k.arg: self.ex(k.value, env) for k in e.keywords}
        if isinstance(f, _Closure):
            return self.call_fn(f.fn, args, kw, f.env)
        if isinstance(f, tuple) and f[0] == "nettype":
            n = Net()
            self.nets.append(n)
            return n
        if isinstance(f, tuple) and f[0] == "ntclass":
            fields = f[1]
            b = self.bind(fields, args, kw, e)
            if set(b) != set(fields):
                self.fail(e, "namedtuple constructed with missing fields")
            return _NT(fields, [b[x] for x in fields])
        if isinstance(f, tuple) and f[0] == "builtin":
            nm = f[1]
            if nm == "namedtuple":
                if len(args) != 2 or kw:
                    self.fail(e, "namedtuple(...) form not recognised")
                fields = args[1].replace(",", " ").split() if isinstance(args[1], str) else list(args[1])
                return ("ntclass", tuple(fields))
            if nm == "Current":
                if not args and not kw:
                    return Cur({})               # the empty current (Current.__init__ default)
                if len(args) != 1 or kw:
                    self.fail(e, "Current(...) form not recognised")
                a = args[0]
                if isinstance(a, str):
                    return Cur({a: 1})
                if isinstance(a, (list, tuple)) and all(isinstance(x, str) for x in a):
                    c = {}
                    for x in a:
                        c[x] = 1          # pandas Series from a dict of ids: duplicates collapse to one entry
                    return Cur(c)
                if isinstance(a, dict):
                    return Cur(a)
                self.fail(e, "Current(...) argument not a list of ids")
            if nm == "get_evse_by_type":
                b = self.bind(self.sig_evse, args, kw, e)
                return ("evse", b.get(self.sig_evse[0]), b.get(self.sig_evse[1]))
            if nm == "ChargingNetwork":
                n = Net()
                self.nets.append(n)
                return n
            if nm == "dict":
                return dict(*args, **kw)
            if nm == "print":
                return None
            if nm == "callable" and len(args) == 1:
                a0_ = args[0]
                return isinstance(a0_, _Closure) or (isinstance(a0_, tuple) and bool(a0_) and a0_[0] in ("builtin", "nettype", "ntclass"))
            if nm in ("any", "all", "bool", "frozenset") and len(args) == 1 and not any(isinstance(x, (Sym, Cur)) for x in (args[0] if isinstance(args[0], (list, tuple, set)) else [args[0]])):
                return {"any": any, "all": all, "bool": bool, "frozenset": frozenset}[nm](args[0])
            if nm in ("isinstance", "type"):
                self.fail(e, f"{nm}() at construction time is outside the subset")
            simple = {"range": range, "len": len, "str": str, "list": list, "tuple": tuple, "enumerate": enumerate, "zip": zip,
                      "sorted": sorted, "int": int, "float": float, "set": set, "reversed": reversed, "abs": abs, "min": min, "max": max,
                      "sum": sum}
            if nm in simple:
                if any(isinstance(x, (Sym, Cur)) for x in args):
                    self.fail(e, f"{nm}() of a symbolic quantity")
                try:
                    v = simple[nm](*args, **kw)
                except Exception:
                    self.fail(e, f"{nm}() fails at construction time")
                if nm in ("int", "float", "abs", "min", "max", "sum"):
                    flat = [y for x in args for y in (x if isinstance(x, (list, tuple)) else [x])]
                    v = with_deps(v, deps_of(*flat))
                return list(v) if nm in ("range", "enumerate", "zip", "reversed") else v
        if isinstance(f, tuple) and f[0] == "attr":
            obj, name = f[1], f[2]
            if obj == ("mathmod",):
                if name == "sqrt" and len(args) == 1 and not isinstance(args[0], (Sym, Cur)):
                    return with_deps(math.sqrt(args[0]), deps_of(args[0]))
                self.fail(e, "math function outside the subset")
            if isinstance(obj, str) and name in ("format", "upper", "lower", "join", "zfill", "strip", "split"):
                return getattr(obj, name)(*args, **kw)
            if isinstance(obj, list) and name in ("append", "extend", "index", "copy", "insert", "remove", "pop", "sort", "reverse"):
                return getattr(obj, name)(*args, **kw)
            if isinstance(obj, dict) and name in ("items", "keys", "values", "get", "update", "copy", "setdefault"):
                v = getattr(obj, name)(*args, **kw)
                return list(v) if name in ("items", "keys", "values") else v
            if isinstance(obj, Net):
                if name == "register_evse":
                    b = self.bind(self.sig_register, args, kw, e)
                    ev = b.get(self.sig_register[0])
                    if not (isinstance(ev, tuple) and ev and ev[0] == "evse"):
                        self.fail(e, "register_evse argument is not get_evse_by_type(...)")
                    obj.evses.append((ev[1], ev[2], b.get(self.sig_register[1]), b.get(self.sig_register[2]), getattr(e, "lineno", 0)))
                    return None
                if name == "add_constraint":
                    b = self.bind(self.sig_constraint, args, kw, e)
                    cur = b.get(self.sig_constraint[0])
                    if not isinstance(cur, Cur):
                        self.fail(e, "add_constraint current is not a Current expression")
                    obj.cons.append((b.get(self.sig_constraint[2]), cur, b.get(self.sig_constraint[1]), getattr(e, "lineno", 0)))
                    return None
                self.fail(e, f"network method {name} outside the subset")
        self.fail(e, "call outside the subset")


def _untaint(x):
    if isinstance(x, TFloat):
        return float(x)
    if isinstance(x, Sym) and x.deps:
        return Sym(x.c, x.t)
    return x


def _load(t):
    import copy
    n = copy.deepcopy(t)
    for x in ast.walk(n):
        if hasattr(x, "ctx"):
            x.ctx = ast.Load()
    return n


def evaluate_site(repo, module_suffix, fname, **overrides):
    """Evaluate factory `fname` of the module; returns (Net, FuncInfo)."""
    rel, tree = repo.module_tree(module_suffix)
    net_cls = repo.cls("ChargingNetwork", module="charging_network.py")
    reg = repo.method(net_cls, "register_evse")
    con = repo.method(net_cls, "add_constraint")
    gebt = repo.fn("get_evse_by_type")
    ev = Evaluator(tree, rel, reg.params[1:], con.params[1:], gebt.params)
    ev.repo = repo
    ev.link_imports(repo)
    if fname not in ev.funcs:
        raise AnalysisError(f"site factory {fname} not found in {rel}")
    fn = ev.funcs[fname]
    params = [a.arg for a in fn.args.args]
    kw = {}
    if "network_type" in params:
        kw["network_type"] = ("nettype",)
    for k, v in overrides.items():
        if k not in params:
            raise AnalysisError(f"{rel}::{fname} has no parameter {k!r} (parameters: {params})")
        kw[k] = v
    net = ev.call_fn(fn, [], kw, {})
    if not isinstance(net, Net):
        raise AnalysisError(f"{rel}::{fname} does not return the network it built")
    return net, params

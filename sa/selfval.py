"""Self-validation of the checker (thorough tier): a catalogue of single-site edits,
applied as in-memory overlays to /repo's *current* sources.  Breaking edits must be
reported as violations; behaviour-preserving edits must stay silent.  Nothing is
written to disk and /repo is never modified.

Self-validation results are reported in the evidence and on stdout; they never
turn a verdict about /repo into a VIOLATION, and (because /repo may legitimately
have been refactored so that a catalogue edit no longer means what it meant)
they do not change the exit status either."""
import json
import os
import sys
from concurrent.futures import ProcessPoolExecutor

from .core import Repo, AnalysisError

HERE = os.path.dirname(os.path.abspath(__file__))
CATALOGUES = [os.path.join(HERE, "catalogue", f) for f in ("breaking.json", "benign.json", "extra.json")]


def load_catalogue():
    items = []
    for p in CATALOGUES:
        if os.path.exists(p):
            d = json.load(open(p))
            for k, v in (d.items() if isinstance(d, dict) else [(x["id"], x) for x in d]):
                v = dict(v)
                v["id"] = k
                items.append(v)
    return items


def apply_edit(repo_root, item, base_sources=None):
    """-> overlay dict or None if the edit does not apply to the current tree."""
    overlay = {}
    edits = item.get("edits") or [dict(file=item["file"], old=item["old"], new=item["new"], occ=item.get("occ", 0))]
    for e in edits:
        rel = e["file"]
        text = overlay.get(rel)
        if text is None:
            try:
                text = open(os.path.join(repo_root, rel), encoding="utf-8").read()
            except OSError:
                return None
        idx, start = -1, 0
        for _ in range(e.get("occ", 0) + 1):
            idx = text.find(e["old"], start)
            if idx < 0:
                return None
            start = idx + 1
        overlay[rel] = text[:idx] + e["new"] + text[idx + len(e["old"]):]
    return overlay


def _run_one(args):
    prop, item, root = args
    from .driver import run_property
    ov = apply_edit(root, item)
    if ov is None:
        return item["id"], "skipped", [], []
    try:
        repo = Repo(root, overlay=ov)
    except AnalysisError as e:
        return item["id"], "error", [], [str(e)]
    ck = run_property(prop, repo, "quick")
    return item["id"], "ran", sorted({v["rule"] for v in ck.violations}), [f"{r}: {m}" for r, m in ck.errors]


def props_of(item):
    return [p.strip() for p in item.get("prop", "").split(",") if p.strip()]


def thorough(prop, repo, ck, jobs=None):
    items = [i for i in load_catalogue() if prop in props_of(i)]
    if not items:
        return {"selfval": "no catalogue entries"}
    jobs = jobs or min(16, os.cpu_count() or 4)
    args = [(prop, i, repo.root) for i in items]
    with ProcessPoolExecutor(max_workers=jobs) as ex:
        res = list(ex.map(_run_one, args, chunksize=2))
    by = {i["id"]: i for i in items}
    detected, missed, silent_ok, false_alarm, skipped, errored, undecided = [], [], [], [], [], [], []
    for iid, status, rules, errs in res:
        it = by[iid]
        benign = it.get("rule") == "SILENT" or it.get("kind") == "benign"
        if status == "skipped":
            skipped.append(iid)
        elif benign:
            (false_alarm if (rules or errs) else silent_ok).append(iid if not (rules or errs) else f"{iid}:{rules or errs}")
        else:
            if rules:
                detected.append(f"{iid}->{','.join(rules)}")
            elif errs:
                errored.append(f"{iid}:{errs[0][:80]}")
            elif str(it.get("rule", "")).endswith(".none") or it.get("undecided"):
                undecided.append(iid)       # breaks a clause the design declares not decidable statically
            else:
                missed.append(iid)
    print(f"  self-validation: {len(detected)} breaking edits reported, {len(missed)} missed, {len(errored)} analysis-error, "
          f"{len(silent_ok)} benign silent, {len(false_alarm)} benign alarmed, {len(skipped)} not applicable to this tree, "
          f"{len(undecided)} in a clause declared undecidable")
    for m in missed:
        print(f"SELFVAL-MISS property={prop} edit={m} ({by[m].get('rule')}: {by[m].get('note', '')})")
    for m in errored:
        print(f"SELFVAL-ERROR property={prop} edit={m}")
    for m in false_alarm:
        print(f"SELFVAL-FALSE-ALARM property={prop} edit={m}")
    return {"selfval_breaking_reported": len(detected), "selfval_breaking_missed": missed, "selfval_analysis_error": errored,
            "selfval_benign_silent": len(silent_ok), "selfval_benign_alarmed": false_alarm, "selfval_skipped": skipped,
            "selfval_declared_undecided": undecided, "selfval_detail": detected}


def main():
    """python -m sa.selfval [Cxx ...]  : run the catalogue for the given (or all) properties and print a table."""
    props = sys.argv[1:] or [f"C{i:02d}" for i in range(1, 21)]
    repo = Repo()
    for p in props:
        print(f"== {p}")
        try:
            thorough(p, repo, None)
        except ModuleNotFoundError as e:
            print("  (no module)", e)


if __name__ == "__main__":
    main()

"""Condition truth tables (C05-R1): a boolean expression is abstracted to named atoms by a caller-supplied recogniser
and evaluated under Python's short-circuit order for every assignment; atoms that are only *evaluable* under a guard
(arithmetic on an Optional) are poisoned outside the guard."""
import ast
import itertools

from .core import AnalysisError, src


class Poison(Exception):
    def __init__(self, what):
        self.what = what


class WrongAtom(Exception):
    """the atom has the specification's operands but a wrong operator/strictness"""


def evaluate(expr, val, atom, evaluable):
    """evaluate expr under assignment val {atom name: bool}; atom(e) -> (name, polarity) or raises;
    evaluable(name, val) -> bool says whether evaluating atom `name` is safe under val."""
    if isinstance(expr, ast.BoolOp):
        if isinstance(expr.op, ast.And):
            for v in expr.values:
                if not evaluate(v, val, atom, evaluable):
                    return False
            return True
        for v in expr.values:
            if evaluate(v, val, atom, evaluable):
                return True
        return False
    if isinstance(expr, ast.UnaryOp) and isinstance(expr.op, ast.Not):
        return not evaluate(expr.operand, val, atom, evaluable)
    if isinstance(expr, ast.IfExp):
        return evaluate(expr.body if evaluate(expr.test, val, atom, evaluable) else expr.orelse, val, atom, evaluable)
    if isinstance(expr, ast.Constant) and isinstance(expr.value, bool):
        return expr.value
    if isinstance(expr, ast.Compare) and len(expr.ops) > 1:
        # chained comparison a < b < c  ==  a < b and b < c
        parts = []
        l = expr.left
        for op, r in zip(expr.ops, expr.comparators):
            parts.append(ast.Compare(left=l, ops=[op], comparators=[r]))
            l = r
        return evaluate(ast.BoolOp(op=ast.And(), values=parts), val, atom, evaluable)
    name, pol = atom(expr)
    if not evaluable(name, val):
        raise Poison(src(expr))
    return val[name] == pol


def compare(expr, names, spec, atom, evaluable):
    """-> list of human-readable discrepancies between expr and spec(val) over all assignments."""
    bad = []
    for bits in itertools.product([False, True], repeat=len(names)):
        val = dict(zip(names, bits))
        want = spec(val)
        if want is None:          # assignment impossible by construction
            continue
        try:
            got = evaluate(expr, val, atom, evaluable)
        except Poison as p:
            bad.append(f"evaluates `{p.what}` under {fmt(val)} (arithmetic on None)")
            continue
        if got != want:
            bad.append(f"under {fmt(val)} the condition is {got}, the specification says {want}")
    return bad


def fmt(val):
    return ", ".join(f"{k}={'T' if v else 'F'}" for k, v in val.items())

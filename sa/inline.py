"""Inlining of *new* helper functions (extract-method refactorings).

The rules are anchored on the functions that exist on the pinned tree (`known_funcs.json`).  A function whose qualified
name is not in that frozen list is, by definition, a helper introduced later; a call to it from a known function is
replaced by its body before any rule looks at the caller, so that extracting a block into a private method, a nested
helper or a module-level function does not change a verdict.  Two forms:

* expression form - a helper whose body is a cascade of guard `return`s (with temporaries) becomes a nested
  conditional expression and is substituted wherever it is called (also inside `if` tests);
* statement form - a helper whose `return`s are all in tail position is spliced in where the call is the whole
  right-hand side of an assignment / `return` / expression statement (returns become assignments to a result variable).

Helpers with `return` inside loops / try / with, generators, *args/**kwargs or recursion are left alone (the rule then
sees an unknown call and reports ANALYSIS-ERROR or, for purely additive helpers, nothing)."""
import ast
import copy
import itertools
import json
import os

_HERE = os.path.dirname(os.path.abspath(__file__))
_counter = itertools.count()
_hoisting = {}


def load_known():
    p = os.path.join(_HERE, "known_funcs.json")
    if not os.path.exists(p):
        return None
    return {x.split("@")[0] for x in json.load(open(p))}


def _strip_doc(body):
    if body and isinstance(body[0], ast.Expr) and isinstance(body[0].value, ast.Constant) and isinstance(body[0].value.value, str):
        return body[1:]
    return body


def _has_return_value(fn):
    for n in _walk_local(fn):
        if isinstance(n, ast.Return) and n.value is not None and not (isinstance(n.value, ast.Constant) and n.value.value is None):
            return True
    return False


def _walk_local(fn):
    todo = list(ast.iter_child_nodes(fn))
    while todo:
        n = todo.pop()
        yield n
        if isinstance(n, (ast.FunctionDef, ast.AsyncFunctionDef, ast.ClassDef, ast.Lambda)):
            continue
        todo.extend(ast.iter_child_nodes(n))


def _simple_sig(fn):
    a = fn.args
    return not (a.kwarg or a.posonlyargs)          # *args is bound to the tuple of the extra positional arguments


def _bind(fn, call, is_method, recv):
    """{param: arg expr} or None"""
    a = fn.args
    params = [x.arg for x in a.args]
    out = {}
    if is_method and params:
        out[params[0]] = recv if recv is not None else ast.Name(id="self", ctx=ast.Load())
        params = params[1:]
    if any(isinstance(x, ast.Starred) for x in call.args) or any(k.arg is None for k in call.keywords):
        return None
    if len(call.args) > len(params) and not a.vararg:
        return None
    for p, v in zip(params, call.args):
        out[p] = v
    if a.vararg:
        out[a.vararg.arg] = ast.Tuple(elts=list(call.args[len(params):]), ctx=ast.Load())
    kwonly = [x.arg for x in a.kwonlyargs]
    for k in call.keywords:
        if k.arg not in params and k.arg not in kwonly:
            return None
        out[k.arg] = k.value
    allp = [x.arg for x in a.args]
    for p, d in zip(allp[len(allp) - len(a.defaults):], a.defaults):
        out.setdefault(p, d)
    for p, d in zip(a.kwonlyargs, a.kw_defaults):
        if d is not None:
            out.setdefault(p.arg, d)
    need = set(allp) | set(kwonly)
    if is_method and allp:
        need.discard(allp[0]) if allp[0] in out else None
    if not need <= set(out):
        return None
    return out


class _Subst(ast.NodeTransformer):
    def __init__(self, mapping):
        self.m = mapping

    def visit_Name(self, n):
        if n.id in self.m:
            v = self.m[n.id]
            if isinstance(n.ctx, ast.Load):
                return copy.deepcopy(v)
            if isinstance(v, ast.Name):
                return ast.Name(id=v.id, ctx=n.ctx)
        return n

    def visit_FunctionDef(self, n):
        return n

    def visit_Lambda(self, n):
        inner = {k: v for k, v in self.m.items() if k not in {a.arg for a in n.args.args}}
        n.body = _Subst(inner).visit(n.body)
        return n


def _assigned_names(stmts):
    out = set()
    for s in stmts:
        for n in [s] + list(_walk_local(s)):
            if isinstance(n, ast.Name) and isinstance(n.ctx, (ast.Store, ast.Del)):
                out.add(n.id)
            elif isinstance(n, ast.arg):
                pass
    return out


def _prepare(fn, binding):
    """body of fn with parameters substituted by arguments and locals renamed apart; returns (prelude stmts, body stmts) or None"""
    body = copy.deepcopy(_strip_doc(fn.body))
    k = next(_counter)
    assigned = _assigned_names(body)
    mapping, prelude = {}, []
    for p, arg in binding.items():
        simple = isinstance(arg, (ast.Name, ast.Constant)) or (isinstance(arg, ast.Attribute) and _is_path(arg)) or \
            (isinstance(arg, ast.Subscript) and isinstance(arg.value, ast.Name) and isinstance(arg.slice, ast.Constant))
        if p in assigned or not simple:
            tmp = f"__h{k}_{p}"
            prelude.append(ast.Assign(targets=[ast.Name(id=tmp, ctx=ast.Store())], value=copy.deepcopy(arg), lineno=0, col_offset=0))
            mapping[p] = ast.Name(id=tmp, ctx=ast.Load())
        else:
            mapping[p] = arg
    for nm in assigned:
        if nm not in binding:
            mapping[nm] = ast.Name(id=f"__h{k}_{nm}", ctx=ast.Load())
    sub = _Subst(mapping)
    body = [sub.visit(s) for s in body]
    return prelude, body, k


def _is_path(e):
    while isinstance(e, ast.Attribute):
        e = e.value
    return isinstance(e, ast.Name)


def _terminates(stmts):
    """every path through stmts ends in return / raise"""
    if not stmts:
        return False
    s = stmts[-1]
    if isinstance(s, (ast.Return, ast.Raise)):
        return True
    if isinstance(s, ast.If):
        return _terminates(s.body) and _terminates(s.orelse)
    return False


def _contains_return(stmts):
    for s in stmts:
        for n in [s] + list(_walk_local(s)):
            if isinstance(n, ast.Return):
                return True
    return False


def tailify(stmts, res):
    """rewrite so that every `return e` becomes `res = e` and nothing follows it on its path; None if not possible"""
    out = []
    for i, s in enumerate(stmts):
        rest = stmts[i + 1:]
        if isinstance(s, ast.Return):
            if res is not None:
                out.append(ast.Assign(targets=[ast.Name(id=res, ctx=ast.Store())], value=s.value if s.value is not None else ast.Constant(value=None),
                                      lineno=getattr(s, "lineno", 0), col_offset=0))
            elif s.value is not None and not isinstance(s.value, ast.Constant):
                out.append(ast.Expr(value=s.value, lineno=getattr(s, "lineno", 0), col_offset=0))
            return out or [ast.Pass()]
        if isinstance(s, ast.If) and (_contains_return(s.body) or _contains_return(s.orelse)):
            b = tailify(s.body + ([] if _terminates(s.body) else rest), res)
            o = tailify(s.orelse + ([] if (s.orelse and _terminates(s.orelse)) else rest), res)
            if b is None or o is None:
                return None
            new = ast.If(test=s.test, body=b or [ast.Pass()], orelse=o, lineno=getattr(s, "lineno", 0), col_offset=0)
            out.append(new)
            return out
        if _contains_return([s]):
            return None          # return inside a loop / try / with
        out.append(s)
    if res is not None and not _terminates(out):
        out.append(ast.Assign(targets=[ast.Name(id=res, ctx=ast.Store())], value=ast.Constant(value=None), lineno=0, col_offset=0))
    return out


def as_expr(stmts, env=None):
    """expression equivalent to a guard cascade: [temps] (if c: [temps] return a)* [temps] return z ; None if not of that form"""
    env = dict(env or {})
    for i, s in enumerate(stmts):
        rest = stmts[i + 1:]
        if isinstance(s, ast.Return):
            return _Subst(env).visit(copy.deepcopy(s.value)) if s.value is not None else ast.Constant(value=None)
        if isinstance(s, ast.Assign) and len(s.targets) == 1 and isinstance(s.targets[0], ast.Name):
            env[s.targets[0].id] = _Subst(env).visit(copy.deepcopy(s.value))
            continue
        if isinstance(s, ast.AnnAssign) and isinstance(s.target, ast.Name) and s.value is not None:
            env[s.target.id] = _Subst(env).visit(copy.deepcopy(s.value))
            continue
        if isinstance(s, ast.If):
            t = _Subst(env).visit(copy.deepcopy(s.test))
            b = as_expr(s.body + ([] if _terminates(s.body) else rest), env)
            o = as_expr(s.orelse + ([] if (s.orelse and _terminates(s.orelse)) else rest), env)
            if b is None or o is None:
                return None
            return ast.IfExp(test=t, body=b, orelse=o)
        if isinstance(s, ast.Pass) or (isinstance(s, ast.Expr) and isinstance(s.value, ast.Constant)):
            continue
        return None
    return None


class Inliner:
    def __init__(self, repo, known):
        self.repo, self.known = repo, known
        self.used = set()        # quals of helpers that were inlined somewhere

    def is_new(self, fi):
        return fi is not None and fi.qual not in self.known

    def is_new_name(self, qual):
        return qual not in self.known

    def resolve(self, call, owner):
        """FuncInfo of a *new* helper called here, plus (is_method, receiver expr); else None"""
        f = call.func
        repo = self.repo
        if isinstance(f, ast.Attribute) and isinstance(f.value, ast.Name):
            recv = f.value.id
            if recv in ("self", "cls") and owner.cls is not None:
                m = repo.method(owner.cls, f.attr, optional=True)
                if m is not None and self.is_new(m) and not m.is_property():
                    st = "staticmethod" in m.decorators()
                    return m, (not st), f.value
            elif owner.cls is not None and recv == owner.cls.name:
                m = repo.method(owner.cls, f.attr, optional=True)
                if m is not None and self.is_new(m):
                    st = "staticmethod" in m.decorators()
                    cm = "classmethod" in m.decorators()
                    return m, cm, (ast.Name(id="cls", ctx=ast.Load()) if cm else None) if not st else None
        if isinstance(f, ast.Attribute) and not (isinstance(f.value, ast.Name) and f.value.id in ("self", "cls")) and not f.attr.startswith("__"):
            # a new method of *another* class called on some object  x.helper(...):  resolved when the name is unique among the
            # functions that did not exist on the pinned tree and no pinned function carries it (so it cannot be anything else)
            cands = [x for q, lst in repo.funcs.items() for x in lst if x.name == f.attr]
            new_c = [x for x in cands if self.is_new(x) and x.cls is not None]
            if len(new_c) == 1 and len(cands) == 1 and not new_c[0].is_property() and "staticmethod" not in new_c[0].decorators() \
                    and "classmethod" not in new_c[0].decorators():
                return new_c[0], True, f.value
        if isinstance(f, ast.Name):
            # a name the enclosing function(s) also bind by assignment / loop / import / a second def is not *the* helper: which object it
            # denotes at the call depends on the path (e.g. `f = g` in one branch and `def f(..)` in the other)
            sc = owner
            while sc is not None:
                n_def = sum(1 for x in _walk_local(sc.node) if isinstance(x, (ast.FunctionDef, ast.AsyncFunctionDef)) and x.name == f.id)
                n_other = sum(1 for x in _walk_local(sc.node) if isinstance(x, ast.Name) and x.id == f.id and isinstance(x.ctx, (ast.Store, ast.Del)))
                if n_other or n_def > 1 or f.id in sc.params:
                    return None
                sc = sc.parent
            # nested helper of the owner, then a function of the same module
            cands = [x for x in repo.funcs.get(f"{owner.qual}.{f.id}", [])]
            if not cands and owner.parent is not None:
                cands = [x for x in repo.funcs.get(f"{owner.parent.qual}.{f.id}", [])]
            if not cands:
                cands = [x for x in repo.funcs.get(f.id, []) if x.module == owner.module and x.cls is None]
            if not cands:
                # a new module-level function of another module of the package, imported here by that name
                imported = any(isinstance(st, ast.ImportFrom) and any((a.asname or a.name) == f.id and a.name == f.id for a in st.names)
                               for st in ast.walk(repo.trees[owner.module]) if isinstance(st, ast.ImportFrom))
                if imported:
                    cands = [x for x in repo.funcs.get(f.id, []) if x.cls is None and x.parent is None]
            if len(cands) == 1 and self.is_new(cands[0]):
                return cands[0], False, None
        return None

    def inline_function(self, fi, depth=3, _stack=()):
        """-> new FunctionDef node (deep copy) with calls to new helpers inlined, or the original node if nothing to do"""
        if depth <= 0 or fi.qual in _stack:
            return fi.node
        fn = copy.deepcopy(fi.node)
        fn = self._prefold(fn, fi)
        if not any(isinstance(n, ast.Call) and self.resolve(n, fi) for n in _walk_local(fn)) and \
                not any(isinstance(c, ast.Call) and self.resolve(c, fi) for n in _walk_local(fn) if isinstance(n, ast.Lambda) for c in ast.walk(n.body)):
            return fi.node
        fn.body = self._block(fn.body, fi, depth, _stack + (fi.qual,))
        fn = simplify(fn)
        ast.fix_missing_locations(fn)
        return fn

    def _prefold(self, fn, owner):
        """`filter(helper, xs)` / `map(helper, xs)` with a new helper as the function argument are put into comprehension form so
        that the helper call becomes visible to the expression-form inlining"""
        inl = self

        class T(ast.NodeTransformer):
            def visit_Call(self, n):
                self.generic_visit(n)
                if isinstance(n.func, ast.Name) and n.func.id in ("filter", "map") and len(n.args) == 2 and not n.keywords:
                    f = n.args[0]
                    probe = ast.Call(func=f, args=[ast.Name(id="__x", ctx=ast.Load())], keywords=[])
                    if isinstance(f, (ast.Attribute, ast.Name)) and inl.resolve(probe, owner):
                        k = next(_counter)
                        var = f"__f{k}"
                        call = ast.Call(func=copy.deepcopy(f), args=[ast.Name(id=var, ctx=ast.Load())], keywords=[])
                        gen = ast.comprehension(target=ast.Name(id=var, ctx=ast.Store()), iter=n.args[1], ifs=[call] if n.func.id == "filter" else [], is_async=0)
                        elt = ast.Name(id=var, ctx=ast.Load()) if n.func.id == "filter" else call
                        return ast.copy_location(ast.GeneratorExp(elt=elt, generators=[gen]), n)
                return n
        return T().visit(fn)

    def _helper_body(self, helper, depth, stack):
        from .core import FuncInfo
        node = self.inline_function(helper, depth - 1, stack)
        g = generator_as_expression(node) or search_as_expression(node)
        return g if g is not None else node

    def _expr(self, e, owner, depth, stack):
        """substitute expression-form helpers inside e"""
        inl = self

        class T(ast.NodeTransformer):
            def visit_Call(self, n):
                self.generic_visit(n)
                r = inl.resolve(n, owner)
                if not r:
                    return n
                helper, is_m, recv = r
                hnode = inl._helper_body(helper, depth, stack)
                if not _simple_sig(hnode) or helper.qual in stack:
                    return n
                b = _bind(hnode, n, is_m, recv)
                if b is None:
                    return n
                prep = _prepare(hnode, b)
                prelude, body, k = prep
                if prelude:
                    # arguments that are not simple would have to be evaluated once: only accept when they occur at most once
                    env = {s.targets[0].id: s.value for s in prelude}
                else:
                    env = {}
                ex = as_expr(body, env)
                if ex is None:
                    return n
                inl.used.add(helper.qual)
                return ast.copy_location(ex, n)

            def visit_Lambda(self, n):
                # expression-form helpers inside a lambda body (a sort key ..): substituted unless a lambda parameter would
                # capture a name of the helper's body
                params = {a.arg for a in n.args.args + n.args.kwonlyargs}
                before = ast.dump(n.body)
                body = T().visit(copy.deepcopy(n.body))
                if ast.dump(body) != before:
                    n2 = copy.copy(n)
                    n2.body = body
                    return n2
                return n
        return T().visit(e)

    def _block(self, stmts, owner, depth, stack):
        out = []
        for s in stmts:
            out.extend(self._stmt(s, owner, depth, stack))
        return out

    def _fuse_generator(self, s, owner, depth, stack):
        """`for x in helper(args): BODY` with a new generator helper  ==  the helper's body with every `yield E` replaced by
        `x = E; BODY` (the consumer runs exactly where the producer yields); `yield from helper(args)`  ==  the helper's body.
        Declined when BODY leaves the loop early (break / continue / return), when the helper returns, or uses yield as an
        expression: those need the generator protocol."""
        if isinstance(s, ast.For) and isinstance(s.iter, ast.Call) and not s.orelse:
            call, target, consumer = s.iter, s.target, s.body
        elif isinstance(s, ast.Expr) and isinstance(s.value, ast.YieldFrom) and isinstance(s.value.value, ast.Call):
            call, target, consumer = s.value.value, None, None
        else:
            return None
        r = self.resolve(call, owner)
        if not r:
            return None
        helper, is_m, recv = r
        if helper.qual in stack or depth <= 0:
            return None
        hnode = self.inline_function(helper, depth - 1, stack)
        if not _simple_sig(hnode):
            return None
        ys = [n for n in _walk_local(hnode) if isinstance(n, (ast.Yield, ast.YieldFrom))]
        if not ys or any(isinstance(n, ast.YieldFrom) for n in ys) or any(isinstance(n, ast.Return) for n in _walk_local(hnode)):
            return None
        stmt_yields = {id(n.value) for n in _walk_local(hnode) if isinstance(n, ast.Expr) and isinstance(n.value, ast.Yield)}
        if any(id(y) not in stmt_yields for y in ys):
            return None
        if consumer is not None:
            def leaves_loop(stmts, in_inner):
                for x in stmts:
                    if isinstance(x, ast.Return):
                        return True
                    if isinstance(x, (ast.Break, ast.Continue)) and not in_inner:
                        return True
                    if isinstance(x, (ast.FunctionDef, ast.ClassDef, ast.Lambda)):
                        continue
                    inner = in_inner or isinstance(x, (ast.For, ast.While))
                    for fld in ("body", "orelse", "finalbody"):
                        b_ = getattr(x, fld, None)
                        if isinstance(b_, list) and b_ and isinstance(b_[0], ast.stmt) and leaves_loop(b_, inner if fld == "body" else in_inner):
                            return True
                    if isinstance(x, ast.Try) and any(leaves_loop(h.body, in_inner) for h in x.handlers):
                        return True
                return False
            if leaves_loop(consumer, False):
                return None
        b = _bind(hnode, call, is_m, recv)
        if b is None:
            return None
        b = {k_: self._expr(copy.deepcopy(v), owner, depth, stack) for k_, v in b.items()}
        prelude, body, k = _prepare(hnode, b)

        def repl(stmts):
            out = []
            for x in stmts:
                if isinstance(x, ast.Expr) and isinstance(x.value, ast.Yield):
                    if consumer is None:
                        out.append(x)
                    else:
                        val = x.value.value if x.value.value is not None else ast.Constant(value=None)
                        out.append(ast.copy_location(ast.Assign(targets=[copy.deepcopy(target)], value=val, lineno=0, col_offset=0), x))
                        out.extend(copy.deepcopy(consumer))
                    continue
                if isinstance(x, (ast.FunctionDef, ast.ClassDef)):
                    out.append(x)
                    continue
                x2 = copy.copy(x)
                for fld in ("body", "orelse", "finalbody"):
                    b_ = getattr(x, fld, None)
                    if isinstance(b_, list) and b_ and isinstance(b_[0], ast.stmt):
                        setattr(x2, fld, repl(b_))
                if isinstance(x, ast.Try):
                    hs = []
                    for h in x.handlers:
                        h2 = copy.copy(h)
                        h2.body = repl(h.body)
                        hs.append(h2)
                    x2.handlers = hs
                out.append(x2)
            return out
        fused = [ast.copy_location(x, s) for x in prelude] + repl(body)
        self.used.add(helper.qual)
        return self._block(fused, owner, depth, stack)

    def _stmt(self, s, owner, depth, stack):
        fused = self._fuse_generator(s, owner, depth, stack)
        if fused is not None:
            return fused
        # statement-form inlining: the call is the whole value
        val = None
        if isinstance(s, (ast.Assign, ast.AnnAssign, ast.AugAssign, ast.Return, ast.Expr)):
            val = s.value
        if isinstance(val, ast.Call):
            r = self.resolve(val, owner)
            if r:
                helper, is_m, recv = r
                hnode = self._helper_body(helper, depth, stack)
                gen = any(isinstance(n, (ast.Yield, ast.YieldFrom)) for n in _walk_local(hnode))
                b = _bind(hnode, val, is_m, recv) if _simple_sig(hnode) and not gen and helper.qual not in stack else None
                if b is not None:
                    # arguments may themselves contain helper calls
                    b = {k: self._expr(copy.deepcopy(v), owner, depth, stack) for k, v in b.items()}
                    prelude, body, k = _prepare(hnode, b)
                    branching = any(isinstance(x, ast.If) for st_ in body for x in ast.walk(st_))
                    ex = as_expr(body) if not isinstance(s, ast.Expr) and not branching else None     # branches stay statements: rules read CFG edges
                    if ex is not None and not prelude:
                        s2 = copy.copy(s)
                        s2.value = ex
                        self.used.add(helper.qual)
                        return [s2]
                    res = None if isinstance(s, ast.Expr) else f"__h{k}_result"
                    t = tailify(body, res)
                    # `a, b = helper()` with `return x, y` everywhere: assign element-wise (keeps each value's provenance visible)
                    if t is not None and isinstance(s, ast.Assign) and len(s.targets) == 1 and isinstance(s.targets[0], ast.Tuple):
                        tg = s.targets[0].elts
                        ok_all = [True]

                        def split(stmts):
                            out = []
                            for x in stmts:
                                if isinstance(x, ast.Assign) and len(x.targets) == 1 and isinstance(x.targets[0], ast.Name) and x.targets[0].id == res:
                                    if isinstance(x.value, ast.Tuple) and len(x.value.elts) == len(tg):
                                        for a_, v_ in zip(tg, x.value.elts):
                                            out.append(ast.copy_location(ast.Assign(targets=[copy.deepcopy(a_)], value=v_, lineno=0, col_offset=0), x))
                                    else:
                                        ok_all[0] = False
                                        out.append(x)
                                elif isinstance(x, ast.If):
                                    x2 = copy.copy(x)
                                    x2.body, x2.orelse = split(x.body), split(x.orelse)
                                    out.append(x2)
                                else:
                                    out.append(x)
                            return out
                        t2 = split(t)
                        if ok_all[0]:
                            self.used.add(helper.qual)
                            t2 = self._block(t2, owner, depth, stack)
                            return [ast.copy_location(x, s) for x in prelude] + t2
                    if t is not None:
                        self.used.add(helper.qual)
                        t = self._block(t, owner, depth, stack)       # nested helper calls inside the spliced body were handled by _helper_body
                        tail = []
                        if res is not None:
                            s2 = copy.copy(s)
                            s2.value = ast.Name(id=res, ctx=ast.Load())
                            tail = [s2]
                        return [ast.copy_location(x, s) for x in prelude] + t + tail
        # compound statements: recurse
        if isinstance(s, ast.FunctionDef) and not self.is_new_name(f"{owner.qual}.{s.name}"):
            # a nested function that already existed on the pinned tree (a search closure ..): calls it makes to *new* sibling closures /
            # helpers are spliced into its own body, with the nested function as the owner of the names
            cands = self.repo.funcs.get(f"{owner.qual}.{s.name}", [])
            if len(cands) == 1 and any(isinstance(n_, ast.Call) and self.resolve(n_, cands[0]) for n_ in _walk_local(s)):
                s2 = copy.copy(s)
                s2.body = self._block(s.body, cands[0], depth, stack + (cands[0].qual,))
                return [s2]
            return [s]
        if isinstance(s, (ast.FunctionDef, ast.AsyncFunctionDef, ast.ClassDef)):
            return [s]
        s2 = copy.copy(s)
        for fld in ("body", "orelse", "finalbody"):
            blk = getattr(s, fld, None)
            if isinstance(blk, list) and blk and isinstance(blk[0], ast.stmt):
                setattr(s2, fld, self._block(blk, owner, depth, stack))
        if isinstance(s, ast.Try):
            hs = []
            for h in s.handlers:
                h2 = copy.copy(h)
                h2.body = self._block(h.body, owner, depth, stack)
                hs.append(h2)
            s2.handlers = hs
        # expressions of this statement (tests, values, iterables): expression-form helpers
        for fld, v in list(ast.iter_fields(s2)):
            if isinstance(v, ast.expr):
                setattr(s2, fld, self._expr(copy.deepcopy(v), owner, depth, stack))
            elif isinstance(v, list) and v and isinstance(v[0], ast.expr):
                setattr(s2, fld, [self._expr(copy.deepcopy(x), owner, depth, stack) for x in v])
        if isinstance(s2, (ast.With, ast.AsyncWith)):
            for it in s2.items:
                it.context_expr = self._expr(copy.deepcopy(it.context_expr), owner, depth, stack)
        # helper calls that are left inside an expression and are evaluated exactly once, unconditionally, when the statement runs
        # (not under and/or, a conditional expression, a comprehension, a lambda or a `while` test) are hoisted into a temporary
        # that is assigned by the statement-form inlining:  f(self._h(x)).g()  ->  t = <body of _h>; f(t).g()
        pre = []
        if not isinstance(s2, ast.While) and not _hoisting.get("off"):
            for fld, v in list(ast.iter_fields(s2)):
                if isinstance(v, ast.Call) and isinstance(s2, (ast.Expr, ast.Assign, ast.Return, ast.AnnAssign, ast.AugAssign)) and fld == "value" and self.resolve(v, owner):
                    continue          # the call is the whole value: the statement form was already tried (and declined) above
                if isinstance(v, ast.expr) and not (isinstance(s2, (ast.For, ast.AsyncFor)) and fld == "target"):
                    pre_v, v2 = self._hoist(v, owner, depth, stack)
                    pre += pre_v
                    setattr(s2, fld, v2)
                elif isinstance(v, list) and v and isinstance(v[0], ast.expr) and fld != "targets":
                    nv = []
                    for x in v:
                        pre_v, x2 = self._hoist(x, owner, depth, stack)
                        pre += pre_v
                        nv.append(x2)
                    setattr(s2, fld, nv)
        return pre + [s2]

    def _hoist(self, e, owner, depth, stack):
        """-> (statements to run first, expression with hoisted helper calls replaced by temporaries)"""
        pre = []
        inl = self

        def go(n, cond):
            # returns replacement for n; `cond` = evaluated conditionally or repeatedly
            if isinstance(n, (ast.Lambda, ast.ListComp, ast.SetComp, ast.DictComp, ast.GeneratorExp)):
                return n
            if isinstance(n, ast.BoolOp):
                n.values = [go(v, cond or i > 0) for i, v in enumerate(n.values)]
                return n
            if isinstance(n, ast.IfExp):
                n.test = go(n.test, cond)
                n.body = go(n.body, True)
                n.orelse = go(n.orelse, True)
                return n
            if isinstance(n, ast.Compare) and len(n.ops) > 1:
                n.left = go(n.left, cond)
                n.comparators = [go(n.comparators[0], cond)] + [go(c, True) for c in n.comparators[1:]]
                return n
            for fld, v in list(ast.iter_fields(n)):
                if isinstance(v, ast.expr):
                    setattr(n, fld, go(v, cond))
                elif isinstance(v, list):
                    setattr(n, fld, [go(x, cond) if isinstance(x, ast.expr) else (go_kw(x, cond) if isinstance(x, ast.keyword) else x) for x in v])
            if isinstance(n, ast.Call) and not cond:
                r = inl.resolve(n, owner)
                if r and r[0].qual not in stack:
                    k = next(_counter)
                    tmp = f"__h{k}_hoisted"
                    asg = ast.Assign(targets=[ast.Name(id=tmp, ctx=ast.Store())], value=n, lineno=getattr(n, "lineno", 0), col_offset=0)
                    _hoisting["off"] = True
                    try:
                        res = inl._stmt(asg, owner, depth, stack)
                    finally:
                        _hoisting.pop("off", None)
                    if len(res) == 1 and res[0] is asg or (len(res) == 1 and isinstance(res[0], ast.Assign) and res[0].value is n):
                        return n          # could not be inlined: leave the call where it is
                    pre.extend(res)
                    return ast.copy_location(ast.Name(id=tmp, ctx=ast.Load()), n)
            return n

        def go_kw(kw, cond):
            kw.value = go(kw.value, cond)
            return kw
        e2 = go(copy.deepcopy(e), False)
        if not pre:
            return [], e
        return pre, e2


def simplify(fn):
    """local rewrites that make inlined code read like hand-written code: getattr(x, "name") -> x.name; a comprehension whose
    iterable is a filter-only generator is fused with it:  [e for x in (y for y in S if p(y))] -> [e for x in S if p(x)]"""
    class T(ast.NodeTransformer):
        def visit_Call(self, n):
            self.generic_visit(n)
            if isinstance(n.func, ast.Name) and n.func.id == "getattr" and len(n.args) == 2 and not n.keywords and \
                    isinstance(n.args[1], ast.Constant) and isinstance(n.args[1].value, str) and n.args[1].value.isidentifier():
                return ast.copy_location(ast.Attribute(value=n.args[0], attr=n.args[1].value, ctx=ast.Load()), n)
            return n

        def visit_IfExp(self, n):
            self.generic_visit(n)
            # conditional expressions with a constant boolean arm are conjunctions / disjunctions (guard cascades of predicates)
            def neg(e):
                return e.operand if isinstance(e, ast.UnaryOp) and isinstance(e.op, ast.Not) else ast.UnaryOp(op=ast.Not(), operand=e)
            t, b, o = n.test, n.body, n.orelse
            if isinstance(b, ast.Constant) and b.value is False:
                return ast.copy_location(ast.BoolOp(op=ast.And(), values=[neg(t), o]), n)          # False if t else o
            if isinstance(o, ast.Constant) and o.value is False:
                return ast.copy_location(ast.BoolOp(op=ast.And(), values=[t, b]), n)               # b if t else False
            if isinstance(b, ast.Constant) and b.value is True:
                return ast.copy_location(ast.BoolOp(op=ast.Or(), values=[t, o]), n)                # True if t else o
            if isinstance(o, ast.Constant) and o.value is True:
                return ast.copy_location(ast.BoolOp(op=ast.Or(), values=[neg(t), b]), n)           # b if t else True
            return n

        def _fuse(self, n):
            self.generic_visit(n)
            gens = []
            for g in n.generators:
                it = g.iter
                if isinstance(it, (ast.GeneratorExp, ast.ListComp)) and len(it.generators) == 1 and isinstance(it.elt, ast.Name) and \
                        isinstance(it.generators[0].target, ast.Name) and it.elt.id == it.generators[0].target.id and isinstance(g.target, ast.Name):
                    inner = it.generators[0]
                    ren = _Subst({inner.target.id: ast.Name(id=g.target.id, ctx=ast.Load())})
                    ifs = [ren.visit(copy.deepcopy(c)) for c in inner.ifs]
                    gens.append(ast.comprehension(target=g.target, iter=inner.iter, ifs=ifs + g.ifs, is_async=0))
                else:
                    gens.append(g)
            n.generators = gens
            return n
        visit_ListComp = visit_GeneratorExp = visit_SetComp = visit_DictComp = _fuse
    return T().visit(fn)


def generator_as_expression(fn):
    """a generator helper of the shape  `for x in S: [if c: continue]* [t = e]* (yield v | if c: yield v)`  is the generator
    expression  (v for x in S if not c ... if c)  : returns a copy of fn whose body is `return (<genexp>)`, or None"""
    body = _strip_doc(fn.body)
    if len(body) != 1 or not isinstance(body[0], ast.For) or body[0].orelse:
        return None
    loop = body[0]
    if not any(isinstance(n, ast.Yield) for n in _walk_local(fn)) or any(isinstance(n, ast.YieldFrom) for n in _walk_local(fn)):
        return None
    conds, env = [], {}
    stmts = list(loop.body)
    value = None
    while stmts:
        st = stmts.pop(0)
        if isinstance(st, ast.If) and not st.orelse and len(st.body) == 1 and isinstance(st.body[0], ast.Continue):
            conds.append(ast.UnaryOp(op=ast.Not(), operand=_Subst(env).visit(copy.deepcopy(st.test))))
            continue
        if isinstance(st, ast.Assign) and len(st.targets) == 1 and isinstance(st.targets[0], ast.Name):
            env[st.targets[0].id] = _Subst(env).visit(copy.deepcopy(st.value))
            continue
        if isinstance(st, ast.If) and not st.orelse and not stmts:
            conds.append(_Subst(env).visit(copy.deepcopy(st.test)))
            stmts = list(st.body)
            continue
        # the nested form the loader gives guard clauses:  if c: pass / else: REST
        if isinstance(st, ast.If) and not stmts and st.orelse and all(isinstance(x, ast.Pass) for x in st.body):
            t_ = _Subst(env).visit(copy.deepcopy(st.test))
            conds.append(t_.operand if isinstance(t_, ast.UnaryOp) and isinstance(t_.op, ast.Not) else ast.UnaryOp(op=ast.Not(), operand=t_))
            stmts = list(st.orelse)
            continue
        if isinstance(st, ast.If) and not stmts and st.orelse and all(isinstance(x, ast.Pass) for x in st.orelse):
            conds.append(_Subst(env).visit(copy.deepcopy(st.test)))
            stmts = list(st.body)
            continue
        if isinstance(st, ast.Expr) and isinstance(st.value, ast.Yield) and not stmts and st.value.value is not None:
            value = _Subst(env).visit(copy.deepcopy(st.value.value))
            continue
        return None
    if value is None:
        return None
    gen = ast.GeneratorExp(elt=value, generators=[ast.comprehension(target=copy.deepcopy(loop.target), iter=copy.deepcopy(loop.iter), ifs=conds, is_async=0)])
    new = copy.copy(fn)
    new.body = [ast.Return(value=gen)]
    return ast.fix_missing_locations(ast.copy_location(new, fn))


def search_as_expression(fn):
    """a first-match search helper  `for i, x in enumerate(L): if x == key: return i` followed by `raise ...`  is  `L.index(key)`
    (list.index itself compares with `is` or `==` and raises when nothing matches): returns fn with body `return L.index(key)`"""
    body = _strip_doc(fn.body)
    if len(body) != 2 or not isinstance(body[0], ast.For) or body[0].orelse or not isinstance(body[1], ast.Raise):
        return None
    loop = body[0]
    it = loop.iter
    if not (isinstance(it, ast.Call) and isinstance(it.func, ast.Name) and it.func.id == "enumerate" and len(it.args) == 1 and
            isinstance(loop.target, ast.Tuple) and len(loop.target.elts) == 2 and all(isinstance(t, ast.Name) for t in loop.target.elts)):
        return None
    i_, x_ = loop.target.elts[0].id, loop.target.elts[1].id
    if len(loop.body) != 1 or not isinstance(loop.body[0], ast.If) or loop.body[0].orelse:
        return None
    iff = loop.body[0]
    if len(iff.body) != 1 or not isinstance(iff.body[0], ast.Return) or not isinstance(iff.body[0].value, ast.Name) or iff.body[0].value.id != i_:
        return None
    # test:  x == key   or   x is key or x == key
    tests = iff.test.values if isinstance(iff.test, ast.BoolOp) and isinstance(iff.test.op, ast.Or) else [iff.test]
    key = None
    for t in tests:
        if not (isinstance(t, ast.Compare) and len(t.ops) == 1 and isinstance(t.ops[0], (ast.Eq, ast.Is))):
            return None
        l, r = t.left, t.comparators[0]
        other = r if (isinstance(l, ast.Name) and l.id == x_) else (l if (isinstance(r, ast.Name) and r.id == x_) else None)
        if other is None or any(isinstance(n, ast.Name) and n.id in (i_, x_) for n in ast.walk(other)):
            return None
        if key is not None and ast.dump(key) != ast.dump(other):
            return None
        key = other
    if not any(isinstance(t.ops[0], ast.Eq) for t in tests):
        return None
    call = ast.Call(func=ast.Attribute(value=copy.deepcopy(it.args[0]), attr="index", ctx=ast.Load()), args=[copy.deepcopy(key)], keywords=[])
    new = copy.copy(fn)
    new.body = [ast.Return(value=call)]
    return ast.fix_missing_locations(ast.copy_location(new, fn))

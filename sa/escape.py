"""Alias / escape classification of return values (C05-R4).

Abstract values: SCALAR (immutable value), FRESH (new object that shares no mutable state with the simulator),
ALIAS (may share mutable state with the simulator), ARG (the caller's own object)."""
import ast

from .core import AnalysisError, dotted, call_name, src, walk_local
from .rules import flow_of

SCALAR, FRESH, ALIAS, ARG = "SCALAR", "FRESH", "ALIAS", "ARG"
RANK = {ALIAS: 0, ARG: 1, FRESH: 2, SCALAR: 3}

# attributes that hold immutable values (numbers, strings, datetimes, None)
SCALAR_ATTRS = {"iteration", "_iteration", "period", "peak", "max_recompute", "start", "violation_tolerance", "relative_tolerance",
                "session_id", "station_id", "current_charging_rate", "arrival", "departure", "estimated_departure", "requested_energy",
                "energy_delivered", "remaining_demand", "fully_charged", "current_time", "shape", "size", "hour", "minute", "second",
                "current_pilot", "max_rate", "min_rate", "demand_charge", "name", "id"}
# containers whose elements (by a non-slice index) are immutable scalars
SCALAR_ARRAYS = {"max_pilot", "min_pilot", "voltages", "phases", "is_continuous", "pilot_signals", "charging_rates", "constraint_limits",
                 "max_pilot_signals", "min_pilot_signals", "_voltages", "_phase_angles", "magnitudes", "station_ids", "constraint_ids",
                 "constraint_index"}
COPYING = {"deepcopy", "array", "tolist", "float", "int", "str", "bool", "len", "sum",
           "max", "min", "abs", "zeros", "ones", "timedelta", "round", "any", "all", "isclose", "allclose"}
# calls that build a new *outer* container but keep the elements: the result is fresh only if the elements are immutable
SHALLOW = {"list", "tuple", "dict", "set", "sorted", "copy", "reversed", "OrderedDict", "deque"}
# containers (by terminal name) whose elements are themselves mutable objects: python containers of arrays / simulator objects, and
# two-dimensional arrays (iterating or list()-ing them yields row views)
NESTED_OBJECTS = {"allowable_pilots", "allowable_rates", "_EVSEs", "ev_history", "event_history", "waiting_queue", "_queue", "queue", "schedule_history"}
NESTED_ROWS = {"constraint_matrix", "pilot_signals", "charging_rates"}
ALIAS_PRESERVING = {"asarray", "view", "values", "keys", "items", "ravel", "atleast_1d", "atleast_2d", "reshape", "transpose", "squeeze",
                    "get", "setdefault", "pop", "__getitem__", "iter", "next", "reversed", "enumerate", "zip"}
HOLDERS = {"SessionInfo", "InfrastructureInfo", "Constraint"}


def worst(kinds):
    kinds = list(kinds)
    return min(kinds, key=lambda k: RANK[k]) if kinds else SCALAR


class Escape:
    def __init__(self, repo, cls, state_roots):
        """cls: ClassInfo whose methods are summarised; state_roots: dotted prefixes that denote simulator state
        (e.g. 'self._simulator' for Interface, 'self' for Simulator/ChargingNetwork)."""
        self.repo, self.cls, self.state_roots = repo, cls, tuple(state_roots)
        self.memo = {}
        self.trace = {}

    def member(self, name):
        key = (self.cls.name, name)
        if key in self.memo:
            return self.memo[key]
        self.memo[key] = SCALAR        # recursion guard
        m = self.repo.method(self.cls, name, optional=True)
        if m is None:
            raise AnalysisError(f"{self.cls.name}.{name} not found")
        fl = flow_of(m)
        kinds = []
        for n in fl.cfg.nodes:
            if n.kind == "return" and n.expr is not None:
                ex = fl.expand(n.expr, n)
                k = self.cl(ex, m)
                kinds.append(k)
                self.trace.setdefault(key, []).append((src(n.expr, 70), k))
            for e in fl.cfg.node_exprs(n):
                for y in [e] + list(walk_local(e)):
                    if isinstance(y, (ast.Yield, ast.YieldFrom)) and y.value is not None:
                        kinds.append(self.cl(fl.expand(y.value, n), m))
        k = worst(kinds)
        self.memo[key] = k
        return k

    def is_state(self, d):
        return d is not None and any(d == r or d.startswith(r + ".") for r in self.state_roots)

    def cl(self, e, m):
        if isinstance(e, ast.Constant):
            return SCALAR
        if isinstance(e, (ast.BinOp, ast.Compare, ast.BoolOp, ast.UnaryOp, ast.JoinedStr)):
            return FRESH if isinstance(e, ast.BinOp) else SCALAR
        if isinstance(e, ast.IfExp):
            return worst([self.cl(e.body, m), self.cl(e.orelse, m)])
        if isinstance(e, (ast.ListComp, ast.SetComp, ast.GeneratorExp)):
            return self.holder([self.cl_comp_elt(e.elt, e, m)])
        if isinstance(e, ast.DictComp):
            return self.holder([self.cl_comp_elt(e.value, e, m), self.cl_comp_elt(e.key, e, m)])
        if isinstance(e, (ast.Tuple, ast.List, ast.Set)):
            return self.holder([self.cl(x, m) for x in e.elts])
        if isinstance(e, ast.Dict):
            return self.holder([self.cl(x, m) for x in e.values])
        if isinstance(e, ast.Name):
            if e.id in m.params:
                return ARG if e.id not in ("self", "cls") else ALIAS
            return FRESH       # unresolved local (loop-carried); its definition was classified where it was expanded
        if isinstance(e, ast.Attribute):
            d = dotted(e)
            if isinstance(e.value, ast.Name) and e.value.id == "self":
                mm = self.repo.method(self.cls, e.attr, optional=True)
                if mm is not None and mm.is_property():
                    return self.member(e.attr)
            if self.is_state(d):
                return SCALAR if e.attr in SCALAR_ATTRS else ALIAS
            b = self.cl(e.value, m)
            if e.attr in SCALAR_ATTRS:
                return SCALAR
            if e.attr == "T":
                return b
            return b if b in (ALIAS, ARG) else FRESH
        if isinstance(e, ast.Subscript):
            b = self.cl(e.value, m)
            if b in (ALIAS, ARG):
                base = e.value
                nm = base.attr if isinstance(base, ast.Attribute) else (base.id if isinstance(base, ast.Name) else None)
                sl = e.slice
                is_slice = isinstance(sl, ast.Slice) or (isinstance(sl, ast.Tuple) and any(isinstance(x, ast.Slice) for x in sl.elts))
                if nm in SCALAR_ARRAYS and not is_slice:
                    return SCALAR
                return b
            return b
        if isinstance(e, ast.Call):
            nm = call_name(e)
            if nm in ("__phi__",):
                return worst(self.cl(a, m) for a in e.args)
            if nm in ("__elem__", "__val__", "__item__", "__key__"):
                return self.cl(e.args[0], m)
            if nm in ("__idx__", "__loop__", "__unk__"):
                return SCALAR
            f = e.func
            if isinstance(f, ast.Attribute) and isinstance(f.value, ast.Name) and f.value.id == "self":
                mm = self.repo.method(self.cls, nm, optional=True)
                if mm is not None:
                    return self.member(nm)
            if nm in HOLDERS:
                return self.holder([self.cl(a, m) for a in e.args] + [self.cl(k.value, m) for k in e.keywords])
            if nm in COPYING:
                return FRESH
            if nm in SHALLOW:
                arg = e.args[0] if e.args else (f.value if isinstance(f, ast.Attribute) else None)
                if arg is None:
                    return FRESH
                k = self.cl(arg, m)
                if k not in (ALIAS, ARG):
                    return FRESH
                base = arg
                while isinstance(base, ast.Call) and call_name(base) in ("values", "items", "__val__", "__elem__") and (base.args or isinstance(base.func, ast.Attribute)):
                    base = base.func.value if isinstance(base.func, ast.Attribute) else base.args[0]
                tn = base.attr if isinstance(base, ast.Attribute) else (base.id if isinstance(base, ast.Name) else None)
                # a shallow copy of an *object* some method built (copy(self._infrastructure_info())) shares every field with the original
                nested = tn in NESTED_OBJECTS or (tn in NESTED_ROWS and nm != "copy") or (nm == "copy" and isinstance(base, ast.Call))
                return k if nested else FRESH
            if nm in ALIAS_PRESERVING:
                recv = self.cl(f.value, m) if isinstance(f, ast.Attribute) else worst(self.cl(a, m) for a in e.args)
                return recv if recv in (ALIAS, ARG) else FRESH
            # call on simulator state: summarise the repository method if it resolves uniquely
            if isinstance(f, ast.Attribute):
                recv_d = dotted(f.value)
                if self.is_state(recv_d) or self.cl(f.value, m) == ALIAS:
                    cands = [x for x in self.repo.funcs.get(nm, [])] + [fi for q, lst in self.repo.funcs.items() for fi in lst
                                                                        if q.endswith("." + nm) and fi.cls is not None and "/tests/" not in fi.module]
                    owners = {}
                    for fi in cands:
                        owners[id(fi.node)] = fi
                    if owners:
                        ks = []
                        for fi in owners.values():
                            if fi.cls is None:
                                continue
                            sub = Escape(self.repo, fi.cls, ("self",))
                            sub.memo = self.memo
                            ks.append(sub.member(fi.name))
                        if ks:
                            return worst(ks)
                    return FRESH       # external callee on simulator state (signals, numpy reductions): computes a new value
            return FRESH
        if isinstance(e, ast.Lambda):
            return FRESH
        if isinstance(e, ast.Starred):
            return self.cl(e.value, m)
        raise AnalysisError(f"escape: expression kind {type(e).__name__} not classified: {src(e)}")

    def cl_comp_elt(self, elt, comp, m):
        """element of a comprehension: generator targets take the class of what they iterate over."""
        env = {}
        for g in comp.generators:
            k = self.cl(g.iter, m)
            for t in ast.walk(g.target):
                if isinstance(t, ast.Name):
                    env[t.id] = k

        outer = self

        class Sub(ast.NodeTransformer):
            def visit_Name(self, n):
                if n.id in env:
                    return ast.Call(func=ast.Name(id="__elem__", ctx=ast.Load()),
                                    args=[ast.Name(id="__ENV_" + env[n.id], ctx=ast.Load())], keywords=[])
                return n
        import copy
        e2 = Sub().visit(copy.deepcopy(elt))
        return self._cl_env(e2, m)

    def _cl_env(self, e, m):
        # names __ENV_<KIND> carry a fixed class
        outer = self
        orig = self.cl

        def cl2(x, mm):
            if isinstance(x, ast.Name) and x.id.startswith("__ENV_"):
                return x.id[6:]
            return orig(x, mm)
        self.cl = cl2
        try:
            return cl2(e, m) if not isinstance(e, ast.Name) else cl2(e, m)
        finally:
            self.cl = orig

    def holder(self, kinds):
        kinds = list(kinds)
        return ALIAS if any(k == ALIAS for k in kinds) else (ARG if any(k == ARG for k in kinds) else FRESH)

"""Statement CFG with explicit edge nodes, dominance, reachability, reaching
definitions and def-use expansion of expressions (the 'influence' engine)."""
import ast
import os
import copy
import itertools

from .core import AnalysisError, dotted, walk_local, src, last_name, call_name


class Node:
    __slots__ = ("id", "kind", "stmt", "expr", "succ", "pred", "test", "label", "loop")

    def __init__(self, nid, kind, stmt=None, expr=None):
        self.id, self.kind, self.stmt, self.expr = nid, kind, stmt, expr
        self.succ, self.pred = [], []
        self.test, self.label, self.loop = None, None, None

    @property
    def line(self):
        n = self.stmt if self.stmt is not None else self.expr
        return getattr(n, "lineno", 0)

    def __repr__(self):
        if self.kind == "edge":
            return f"<{self.id}:edge {self.label} of {src(self.test.expr, 40)}>"
        n = self.expr if self.expr is not None else self.stmt
        return f"<{self.id}:{self.kind}:{src(n, 50) if n is not None else ''}>"


SIMPLE = (ast.Assign, ast.AugAssign, ast.AnnAssign, ast.Expr, ast.Pass, ast.Delete, ast.Assert,
          ast.Import, ast.ImportFrom, ast.Global, ast.Nonlocal)


class CFG:
    """CFG of one function body.  Kinds: entry, exit, raise_exit, stmt, test, edge,
    for, return, raise, break, continue, with, except, def."""

    def __init__(self, fn):
        self.fn = fn
        self.nodes = []
        self._ids = itertools.count()
        self.entry = self._new("entry")
        self.exit = self._new("exit")
        self.raise_exit = self._new("raise_exit")
        self._loops = []
        self.by_stmt = {}
        ends = self._block(fn.body, [self.entry])
        for n in ends:
            self._edge(n, self.exit)
        self._dom = None

    # -- construction
    def _new(self, kind, stmt=None, expr=None):
        n = Node(next(self._ids), kind, stmt, expr)
        self.nodes.append(n)
        if stmt is not None and kind != "edge":
            self.by_stmt.setdefault(id(stmt), n)
        return n

    def _edge(self, a, b):
        a.succ.append(b)
        b.pred.append(a)

    def _connect(self, preds, n):
        for p in preds:
            self._edge(p, n)

    def _block(self, stmts, preds):
        for s in stmts:
            preds = self._stmt(s, preds)
        return preds

    def _test(self, stmt, expr, preds, may_flip=True):
        # `if not X` is the test X with the two edges exchanged: the node carries X, the edge labels say which way X went
        # (loops keep their test as written: the body of a loop is its True edge)
        flip = False
        while may_flip and isinstance(expr, ast.UnaryOp) and isinstance(expr.op, ast.Not) and os.environ.get("VERIF_KEEP_NOT") != "1":
            expr, flip = expr.operand, not flip
        t = self._new("test", stmt, expr)
        self._connect(preds, t)
        et = self._new("edge", stmt)
        et.test, et.label = t, True
        ef = self._new("edge", stmt)
        ef.test, ef.label = t, False
        self._edge(t, et)
        self._edge(t, ef)
        return (t, ef, et) if flip else (t, et, ef)

    def _stmt(self, s, preds):
        if isinstance(s, ast.If):
            t, et, ef = self._test(s, s.test, preds)
            a = self._block(s.body, [et])
            b = self._block(s.orelse, [ef]) if s.orelse else [ef]
            return a + b
        if isinstance(s, ast.While):
            t, et, ef = self._test(s, s.test, preds, may_flip=False)
            brk = []
            self._loops.append((t, brk))
            body_end = self._block(s.body, [et])
            self._loops.pop()
            self._connect(body_end, t)
            const_true = isinstance(s.test, ast.Constant) and s.test.value is True
            out = [] if const_true else [ef]
            if s.orelse and not const_true:
                out = self._block(s.orelse, out)
            return out + brk
        if isinstance(s, (ast.For, ast.AsyncFor)):
            t = self._new("for", s, s.iter)
            self._connect(preds, t)
            et = self._new("edge", s)
            et.test, et.label = t, True
            ef = self._new("edge", s)
            ef.test, ef.label = t, False
            self._edge(t, et)
            self._edge(t, ef)
            brk = []
            self._loops.append((t, brk))
            body_end = self._block(s.body, [et])
            self._loops.pop()
            self._connect(body_end, t)
            out = [ef]
            if s.orelse:
                out = self._block(s.orelse, out)
            return out + brk
        if isinstance(s, ast.Return):
            n = self._new("return", s, s.value)
            self._connect(preds, n)
            self._edge(n, self.exit)
            return []
        if isinstance(s, ast.Raise):
            n = self._new("raise", s, s.exc)
            self._connect(preds, n)
            self._edge(n, self.raise_exit)
            return []
        if isinstance(s, ast.Break):
            n = self._new("break", s)
            self._connect(preds, n)
            if not self._loops:
                raise AnalysisError("break outside loop")
            self._loops[-1][1].append(n)
            return []
        if isinstance(s, ast.Continue):
            n = self._new("continue", s)
            self._connect(preds, n)
            self._edge(n, self._loops[-1][0])
            return []
        if isinstance(s, ast.Try):
            first = len(self.nodes)
            ends = self._block(s.body, preds)
            body_nodes = self.nodes[first:]
            outs = list(ends)
            if s.orelse:
                outs = self._block(s.orelse, outs)
            for h in s.handlers:
                hn = self._new("except", h)
                for bn in body_nodes:
                    if bn.kind not in ("edge",):
                        self._edge(bn, hn)
                for p in preds:
                    self._edge(p, hn)
                outs += self._block(h.body, [hn])
            if s.finalbody:
                outs = self._block(s.finalbody, outs)
            return outs
        if isinstance(s, (ast.With, ast.AsyncWith)):
            n = self._new("with", s)
            self._connect(preds, n)
            return self._block(s.body, [n])
        if isinstance(s, (ast.FunctionDef, ast.AsyncFunctionDef, ast.ClassDef)):
            n = self._new("def", s)
            self._connect(preds, n)
            return [n]
        if isinstance(s, SIMPLE):
            n = self._new("stmt", s, s if not isinstance(s, ast.Expr) else s.value)
            self._connect(preds, n)
            return [n]
        raise AnalysisError(f"statement kind {type(s).__name__} is outside the analysable subset")

    # -- queries
    def node_of(self, stmt):
        n = self.by_stmt.get(id(stmt))
        if n is None:
            raise AnalysisError(f"statement not in CFG: {src(stmt)}")
        return n

    def reach(self, start, avoid=()):
        """nodes reachable from start (inclusive) without entering `avoid`."""
        avoid = set(avoid)
        seen, todo = set(), [start]
        while todo:
            x = todo.pop()
            if x in seen or x in avoid:
                continue
            seen.add(x)
            todo.extend(x.succ)
        return seen

    def reach_from_succ(self, start, avoid=()):
        """nodes reachable from the successors of start (start itself only if on a cycle)."""
        avoid = set(avoid)
        seen, todo = set(), list(start.succ)
        while todo:
            x = todo.pop()
            if x in seen or x in avoid:
                continue
            seen.add(x)
            todo.extend(x.succ)
        return seen

    @property
    def dom(self):
        if self._dom is None:
            reach = self.reach(self.entry)
            order = [n for n in self.nodes if n in reach]
            dom = {n: set(order) for n in order}
            dom[self.entry] = {self.entry}
            changed = True
            while changed:
                changed = False
                for n in order:
                    if n is self.entry:
                        continue
                    ps = [p for p in n.pred if p in reach]
                    new = (set.intersection(*(dom[p] for p in ps)) if ps else set()) | {n}
                    if new != dom[n]:
                        dom[n] = new
                        changed = True
            self._dom = dom
        return self._dom

    def dominates(self, a, b):
        return a in self.dom.get(b, ())

    def live(self, n):
        return n in self.dom

    def edges_dominating(self, n):
        """[(test_node, label)] for all edge nodes dominating n."""
        return [(d.test, d.label) for d in self.dom.get(n, ()) if d.kind == "edge"]

    def must_pass(self, frm, to, via):
        """every path frm -> to passes through one of `via` (nodes)."""
        return to not in self.reach(frm, avoid=via) or frm in via

    def stmt_nodes(self):
        return [n for n in self.nodes if n.kind in ("stmt", "return", "raise", "test", "for", "with")]

    def node_exprs(self, n):
        """expressions evaluated at node n."""
        if n.kind == "stmt":
            return [n.stmt]
        if n.kind in ("test", "for", "return", "raise"):
            return [n.expr] if n.expr is not None else []
        if n.kind == "with":
            return [i.context_expr for i in n.stmt.items]
        return []

    def find_nodes(self, pred):
        """nodes one of whose evaluated expressions contains an AST node satisfying pred;
        returns [(node, matching_ast)]"""
        out = []
        for n in self.nodes:
            for e in self.node_exprs(n):
                for sub in [e] + list(walk_local(e)):
                    if pred(sub):
                        out.append((n, sub))
        return out

    def loop_region(self, head):
        """every node that belongs to the loop statement's body (dominated by the true edge of the head), including
        nodes that leave the loop (break / return / raise) and therefore never reach the head again."""
        inside = set()
        for st in head.stmt.body:
            for x in ast.walk(st):
                inside.add(id(x))
        return {n for n in self.nodes if n.stmt is not None and id(n.stmt) in inside}

    def loop_body_nodes(self, head):
        """nodes of the loop whose head (test/for node) is given: reachable from the true
        edge and able to reach the head again."""
        true_edge = [s for s in head.succ if s.kind == "edge" and s.label is True][0]
        fwd = self.reach(true_edge, avoid={head})
        return {n for n in fwd if head in self.reach(n)} | {true_edge}


# ----------------------------------------------------------------------------
# facts established by a branch edge
# ----------------------------------------------------------------------------

INT_ATTRS = set()          # attribute names that only ever hold integers (filled by core.Repo from the package's stores)


def _int_like(e):
    """expression that evaluates to a Python / numpy integer whatever the inputs (so int(e) == e)"""
    if isinstance(e, ast.Constant):
        return isinstance(e.value, int) and not isinstance(e.value, bool)
    if isinstance(e, ast.Call):
        nm = e.func.id if isinstance(e.func, ast.Name) else (e.func.attr if isinstance(e.func, ast.Attribute) else None)
        if nm in ("len", "int", "__idx__") or (nm in ("index", "count", "argmax", "argmin") and isinstance(e.func, ast.Attribute)):
            return True
        if nm == "__elem__" and e.args and isinstance(e.args[0], ast.Call) and isinstance(e.args[0].func, ast.Name) and e.args[0].func.id == "range":
            return all(_int_like(a) for a in e.args[0].args)
        if nm == "pop" and isinstance(e.func, ast.Attribute) and not e.args:
            v = e.func.value
            while isinstance(v, ast.Call) and isinstance(v.func, ast.Name) and v.func.id in ("set", "list", "sorted", "tuple") and len(v.args) == 1:
                v = v.args[0]
            return isinstance(v, (ast.SetComp, ast.ListComp, ast.GeneratorExp)) and _int_like(v.elt)
        if nm in ("min", "max") and e.args and not e.keywords:
            return all(_int_like(a) for a in e.args)
        return False
    if isinstance(e, ast.Subscript) and isinstance(e.value, ast.Attribute) and e.value.attr == "shape":
        return True
    if isinstance(e, ast.Attribute):
        return e.attr in INT_ATTRS
    if isinstance(e, ast.BinOp) and isinstance(e.op, (ast.Add, ast.Sub, ast.Mult, ast.FloorDiv, ast.Mod)):
        return _int_like(e.left) and _int_like(e.right)
    if isinstance(e, ast.UnaryOp) and isinstance(e.op, (ast.USub, ast.UAdd)):
        return _int_like(e.operand)
    return False


def _number_like(e):
    """expression that evaluates to a number (so float(e) has the same value; it is not a text being parsed)"""
    if isinstance(e, ast.Constant):
        return isinstance(e.value, (int, float)) and not isinstance(e.value, bool)
    if _int_like(e):
        return True
    if isinstance(e, ast.BinOp) and isinstance(e.op, (ast.Sub, ast.Mult, ast.Div, ast.FloorDiv, ast.Pow)):
        return True
    if isinstance(e, ast.BinOp) and isinstance(e.op, ast.Add):
        return _number_like(e.left) or _number_like(e.right)
    if isinstance(e, ast.Call):
        nm = e.func.id if isinstance(e.func, ast.Name) else (e.func.attr if isinstance(e.func, ast.Attribute) else None)
        if nm in ("min", "max") and not e.keywords:
            args = e.args[0].elts if len(e.args) == 1 and isinstance(e.args[0], (ast.List, ast.Tuple)) else e.args
            return bool(args) and any(_number_like(a) for a in args)
        return nm in ("abs", "float", "round", "sum", "clip", "minimum", "maximum", "floor", "ceil", "sqrt", "exp", "log", "hypot", "norm", "dot", "remaining_amp_periods")
    if isinstance(e, ast.UnaryOp) and isinstance(e.op, (ast.USub, ast.UAdd)):
        return _number_like(e.operand)
    return False


def edge_facts(expr, truth):
    """atoms (ast, bool) that are known on the `truth` edge of test `expr`."""
    out = []

    def go(e, t):
        if isinstance(e, ast.Call) and isinstance(e.func, ast.Name) and e.func.id == "bool" and len(e.args) == 1 and not e.keywords:
            go(e.args[0], t)          # in a test, bool(x) is x
        elif isinstance(e, ast.UnaryOp) and isinstance(e.op, ast.Not):
            go(e.operand, not t)
        elif isinstance(e, ast.BoolOp) and isinstance(e.op, ast.And):
            if t:
                for v in e.values:
                    go(v, True)
            elif len(e.values) == 1:
                go(e.values[0], False)
        elif isinstance(e, ast.BoolOp) and isinstance(e.op, ast.Or):
            if not t:
                for v in e.values:
                    go(v, False)
        else:
            out.append((e, t))
    go(expr, truth)
    return out


# ----------------------------------------------------------------------------
# reaching definitions and expansion
# ----------------------------------------------------------------------------

def _target_names(t):
    if isinstance(t, ast.Name):
        return [t.id]
    if isinstance(t, (ast.Tuple, ast.List)):
        out = []
        for e in t.elts:
            out += _target_names(e)
        return out
    if isinstance(t, ast.Starred):
        return _target_names(t.value)
    return []


class Flow:
    """CFG + reaching definitions for one function."""

    def __init__(self, finfo_or_node, track_self=False):
        self.fn = finfo_or_node.node if hasattr(finfo_or_node, "node") else finfo_or_node
        self.info = finfo_or_node if hasattr(finfo_or_node, "node") else None
        self.cfg = CFG(self.fn)
        self.track_self = track_self
        self._defs = {}   # node -> {name: how}
        self._collect_defs()
        if track_self:
            self._collect_self_defs()
        self._rd_in = None

    def _collect_self_defs(self):
        """treat plain stores to self.<attr> as definitions of the pseudo-variable 'self.<attr>';
        a method call on self may change any of them (conservative kill)."""
        tracked = set()
        for n in self.cfg.nodes:
            if n.kind == "stmt" and isinstance(n.stmt, (ast.Assign, ast.AugAssign, ast.AnnAssign)):
                tg = n.stmt.targets if isinstance(n.stmt, ast.Assign) else [n.stmt.target]
                for t in tg:
                    d = dotted(t)
                    if d and d.startswith("self.") and d.count(".") == 1:
                        tracked.add(d)
        if not tracked:
            return
        self._defs.setdefault(self.cfg.entry, {}).update({k: ("param",) for k in tracked})
        for n in self.cfg.nodes:
            d = self._defs.setdefault(n, {})
            kills = False
            for e in self.cfg.node_exprs(n):
                for c in [e] + list(walk_local(e)):
                    if isinstance(c, ast.Call) and isinstance(c.func, ast.Attribute) and isinstance(c.func.value, ast.Name) \
                            and c.func.value.id == "self":
                        kills = True
            if kills:
                for k in tracked:
                    d[k] = ("other",)
            if n.kind == "stmt":
                s = n.stmt
                if isinstance(s, ast.Assign):
                    for t in s.targets:
                        if dotted(t) in tracked:
                            d[dotted(t)] = ("assign", s.value)
                elif isinstance(s, ast.AnnAssign) and s.value is not None and dotted(s.target) in tracked:
                    d[dotted(s.target)] = ("assign", s.value)
                elif isinstance(s, ast.AugAssign) and dotted(s.target) in tracked:
                    d[dotted(s.target)] = ("aug", s.op, s.value)
            if not d:
                del self._defs[n]

    # how: ('assign', value_expr) | ('unpack', value_expr, path) | ('aug', op, value_expr)
    #    | ('iter', iter_expr, path) | ('param',) | ('other',)
    def _collect_defs(self):
        a = self.fn.args
        params = [x.arg for x in a.posonlyargs + a.args + a.kwonlyargs]
        if a.vararg:
            params.append(a.vararg.arg)
        if a.kwarg:
            params.append(a.kwarg.arg)
        self._defs[self.cfg.entry] = {p: ("param",) for p in params}
        for n in self.cfg.nodes:
            d = {}
            s = n.stmt
            if n.kind == "stmt":
                if isinstance(s, ast.Assign):
                    for t in s.targets:
                        self._bind(t, s.value, d, ())
                elif isinstance(s, ast.AnnAssign) and s.value is not None:
                    self._bind(s.target, s.value, d, ())
                elif isinstance(s, ast.AugAssign) and isinstance(s.target, ast.Name):
                    d[s.target.id] = ("aug", s.op, s.value)
                elif isinstance(s, (ast.Import, ast.ImportFrom)):
                    for al in s.names:
                        d[(al.asname or al.name).split(".")[0]] = ("other",)
                # walrus
                for e in walk_local(s):
                    if isinstance(e, ast.NamedExpr) and isinstance(e.target, ast.Name):
                        d[e.target.id] = ("assign", e.value)
            elif n.kind == "for":
                self._bind_iter(s.target, s.iter, d)
            elif n.kind == "with":
                for it in s.items:
                    if it.optional_vars is not None:
                        for nm in _target_names(it.optional_vars):
                            d[nm] = ("other",)
            elif n.kind == "except":
                if s.name:
                    d[s.name] = ("other",)
            elif n.kind == "def":
                d[s.name] = ("other",)
            elif n.kind == "test":
                for e in [n.expr] + list(walk_local(n.expr)):
                    if isinstance(e, ast.NamedExpr) and isinstance(e.target, ast.Name):
                        d[e.target.id] = ("assign", e.value)
            if d:
                self._defs[n] = d

    def _bind(self, target, value, d, path):
        if isinstance(target, ast.Name):
            d[target.id] = ("assign", value) if not path else ("unpack", value, path)
        elif isinstance(target, (ast.Tuple, ast.List)):
            if isinstance(value, (ast.Tuple, ast.List)) and len(value.elts) == len(target.elts) and not path:
                for t, v in zip(target.elts, value.elts):
                    self._bind(t, v, d, ())
            else:
                for i, t in enumerate(target.elts):
                    self._bind(t, value, d, path + (i,))
        elif isinstance(target, ast.Starred):
            self._bind(target.value, value, d, path + ("*",))

    def _bind_iter(self, target, it, d, path=()):
        if isinstance(target, ast.Name):
            d[target.id] = ("iter", it, path)
        elif isinstance(target, (ast.Tuple, ast.List)):
            for i, t in enumerate(target.elts):
                self._bind_iter(t, it, d, path + (i,))

    def _solve(self):
        cfg = self.cfg
        out = {n: {} for n in cfg.nodes}   # name -> frozenset of def nodes
        inn = {n: {} for n in cfg.nodes}
        work = list(cfg.nodes)
        while work:
            n = work.pop(0)
            new_in = {}
            for p in n.pred:
                for k, v in out[p].items():
                    new_in[k] = new_in.get(k, frozenset()) | v
            inn[n] = new_in
            new_out = dict(new_in)
            for k in self._defs.get(n, {}):
                new_out[k] = frozenset([n])
            if new_out != out[n]:
                out[n] = new_out
                for s in n.succ:
                    if s not in work:
                        work.append(s)
        self._rd_in = inn
        self._rd_out = out

    def defs_at(self, node, name):
        """definition nodes of `name` reaching the *entry* of node."""
        if self._rd_in is None:
            self._solve()
        return self._rd_in[node].get(name, frozenset())

    def def_how(self, defnode, name):
        return self._defs[defnode][name]

    # -- expansion ---------------------------------------------------------
    def expand(self, expr, node, depth=8, _stack=()):
        """Return a copy of expr with local names replaced by what they were defined as
        (through unique or multiple reaching definitions).  Synthetic calls:
        __elem__(it), __idx__(it), __key__(d), __val__(d), __item__(v, i), __phi__(a, b..),
        __loop__(name), __unk__(name)."""
        fl = self

        class T(ast.NodeTransformer):
            def visit_Name(self, n):
                if not isinstance(n.ctx, ast.Load):
                    return n
                return fl._expand_name(n, node, depth, _stack)

            def visit_Attribute(self, n):
                if fl.track_self and isinstance(n.ctx, ast.Load) and isinstance(n.value, ast.Name) and n.value.id == "self" \
                        and fl.defs_at(node, f"self.{n.attr}"):
                    return fl._expand_name(n, node, depth, _stack)
                return self.generic_visit(n)

            def visit_Lambda(self, n):
                return n

            def visit_ListComp(self, n):
                return fl._expand_comp(n, node, depth, _stack)
            visit_SetComp = visit_GeneratorExp = visit_DictComp = visit_ListComp

            def _splice(self, elts):
                out = []
                for a in elts:
                    if isinstance(a, ast.Starred) and isinstance(a.value, (ast.Tuple, ast.List)):
                        out.extend(a.value.elts)          # f(x, *(a, b)) is f(x, a, b)
                    else:
                        out.append(a)
                return out

            def visit_Call(self, n):
                n = self.generic_visit(n)
                if any(isinstance(a, ast.Starred) for a in n.args):
                    n.args = self._splice(n.args)
                # np.asarray(E) / np.asanyarray(E) (no dtype): the same numbers in the same places
                if isinstance(n.func, ast.Attribute) and n.func.attr in ("asarray", "asanyarray") and isinstance(n.func.value, ast.Name) and n.func.value.id in ("np", "numpy") \
                        and len(n.args) == 1 and (not n.keywords or (len(n.keywords) == 1 and n.keywords[0].arg == "dtype" and (
                            (isinstance(n.keywords[0].value, ast.Name) and n.keywords[0].value.id == "float") or
                            (isinstance(n.keywords[0].value, ast.Attribute) and n.keywords[0].value.attr in ("float64", "float_")) or
                            (isinstance(n.keywords[0].value, ast.Constant) and n.keywords[0].value.value in ("float", "float64"))))):
                    return n.args[0]
                # int(E) of a value that is an integer already, float(E) of a value that is a number already: the value itself
                if isinstance(n.func, ast.Name) and n.func.id in ("int", "float") and len(n.args) == 1 and not n.keywords:
                    if (n.func.id == "int" and _int_like(n.args[0])) or (n.func.id == "float" and _number_like(n.args[0])):
                        return n.args[0]
                return n

            def visit_List(self, n):
                n = self.generic_visit(n)
                if any(isinstance(a, ast.Starred) for a in n.elts):
                    n.elts = self._splice(n.elts)
                return n
            visit_Tuple = visit_List

            def visit_BinOp(self, n):
                n = self.generic_visit(n)
                # [a] + [b, c] -> [a, b, c]  /  (a,) + (b,) -> (a, b)   (concatenation of two literal sequences of one kind)
                if isinstance(n.op, ast.Add) and type(n.left) is type(n.right) and isinstance(n.left, (ast.List, ast.Tuple)) \
                        and not any(isinstance(x, ast.Starred) for x in n.left.elts + n.right.elts):
                    return ast.copy_location(type(n.left)(elts=list(n.left.elts) + list(n.right.elts), ctx=ast.Load()), n)
                return n

            def visit_Compare(self, n):
                n = self.generic_visit(n)
                # `x in list(S)` / `x not in tuple(S)` is `x in S` (a copy holds the same members)
                for i, (op, c) in enumerate(zip(n.ops, n.comparators)):
                    if isinstance(op, (ast.In, ast.NotIn)):
                        while isinstance(c, ast.Call) and isinstance(c.func, ast.Name) and c.func.id in ("list", "tuple", "set", "frozenset") and len(c.args) == 1 and not c.keywords \
                                and not isinstance(c.args[0], (ast.GeneratorExp,)):
                            c = c.args[0]
                        n.comparators[i] = c
                return n

            def visit_Subscript(self, n):
                n = self.generic_visit(n)
                # list(S)[i] of a sequence-valued accessor is S[i] (a copy holds the same elements at the same positions)
                if isinstance(n.ctx, ast.Load) and isinstance(n.value, ast.Call) and isinstance(n.value.func, ast.Name) and n.value.func.id in ("list", "tuple") \
                        and len(n.value.args) == 1 and not n.value.keywords and isinstance(n.value.args[0], ast.Attribute) \
                        and n.value.args[0].attr in ("station_ids", "constraint_index", "allowable_pilots"):
                    n.value = n.value.args[0]
                # list((a, b)) / tuple([a, b]) of a literal sequence is that sequence
                while isinstance(n.value, ast.Call) and isinstance(n.value.func, ast.Name) and n.value.func.id in ("list", "tuple") and len(n.value.args) == 1 \
                        and not n.value.keywords and isinstance(n.value.args[0], (ast.List, ast.Tuple)):
                    n.value = n.value.args[0]
                # (a, b, c)[1:] -> (b, c)
                if isinstance(n.ctx, ast.Load) and isinstance(n.value, (ast.List, ast.Tuple)) and isinstance(n.slice, ast.Slice) and n.slice.step is None \
                        and all(b is None or (isinstance(b, ast.Constant) and isinstance(b.value, int)) for b in (n.slice.lower, n.slice.upper)) \
                        and not any(isinstance(x, ast.Starred) for x in n.value.elts):
                    lo = n.slice.lower.value if n.slice.lower is not None else None
                    hi = n.slice.upper.value if n.slice.upper is not None else None
                    return ast.copy_location(type(n.value)(elts=list(n.value.elts)[lo:hi], ctx=ast.Load()), n)
                # [a, b][0] -> a   (a literal sequence indexed by a literal position)
                if isinstance(n.ctx, ast.Load) and isinstance(n.value, (ast.List, ast.Tuple)) and isinstance(n.slice, ast.Constant) and isinstance(n.slice.value, int) \
                        and not isinstance(n.slice.value, bool) and -len(n.value.elts) <= n.slice.value < len(n.value.elts) \
                        and not any(isinstance(x, ast.Starred) for x in n.value.elts):
                    return n.value.elts[n.slice.value]
                return n

        return T().visit(copy.deepcopy(expr))

    def _expand_comp(self, comp, node, depth, stack):
        bound = set()
        for g in comp.generators:
            bound |= set(_target_names(g.target))
        fl = self

        class T(ast.NodeTransformer):
            def visit_Name(self, n):
                if n.id in bound or not isinstance(n.ctx, ast.Load):
                    return n
                return fl._expand_name(n, node, depth, stack)

            def visit_Lambda(self, n):
                return n
        out = T().generic_visit(comp)
        for g in out.generators:
            g.iter = _strip_seq(g.iter)         # iterating list(X) is iterating X
        return fuse_comprehension(out)

    def _call(self, fname, *args):
        return ast.Call(func=ast.Name(id=fname, ctx=ast.Load()), args=list(args), keywords=[])

    def _expand_name(self, n, node, depth, stack):
        nid = n.id if isinstance(n, ast.Name) else dotted(n)
        if nid in getattr(self, "keep", ()):
            return n                    # the caller wants this variable kept symbolic
        defs = self.defs_at(node, nid)
        if not defs or depth <= 0:
            return n
        if isinstance(n, ast.Name) and len(defs) > 1:
            # `t = 0; for ...: t += e`  read after the loop is  sum(e for ...)
            for d0 in defs:
                how0 = self.def_how(d0, nid)
                if how0[0] == "assign" and isinstance(how0[1], ast.Constant) and how0[1].value == 0 and not isinstance(how0[1].value, bool):
                    built = self._loop_built(nid, d0, node)
                    if built is not None and getattr(built, "_is_sum", False) and \
                            all(any(d.stmt is a for a in built._acc_stmts) for d in defs if d is not d0):
                        ex = self._expand_comp(built, d0, depth - 1, stack + ((nid, d0.id),))
                        return ast.Call(func=ast.Name(id="sum", ctx=ast.Load()), args=[ex], keywords=[])
        if isinstance(n, ast.Name) and len(defs) > 1:
            # `L = []; for ...: L += [e]`  read after the loop is  [e for ...]
            for d0 in defs:
                how0 = self.def_how(d0, nid)
                if how0[0] == "assign" and isinstance(how0[1], ast.List) and not how0[1].elts:
                    built = self._loop_built(nid, d0, node)
                    if built is not None and isinstance(built, ast.ListComp) and getattr(built, "_acc_stmts", None) and \
                            all(any(d.stmt is a for a in built._acc_stmts) for d in defs if d is not d0) \
                            and not any(node in self.cfg.loop_body_nodes(t) for d in defs if d is not d0 for t, lab in self.cfg.edges_dominating(d) if t.kind == "for" and lab is True):
                        ex = self._expand_comp(built, d0, depth - 1, stack + ((nid, d0.id),))
                        if getattr(built, "_sorted_after", False):
                            ex = ast.Call(func=ast.Name(id="sorted", ctx=ast.Load()), args=[ex], keywords=[])
                        return ex
        if isinstance(n, ast.Name) and len(defs) == 2:
            ext = self._running_extreme(nid, defs, node, depth, stack)
            if ext is not None:
                return ext
        alts = []
        for d in sorted(defs, key=lambda x: x.id):
            key = (nid, d.id)
            if key in stack:
                alts.append(self._call("__loop__", ast.Constant(value=nid)))
                continue
            how = self.def_how(d, nid)
            st = stack + (key,)
            if how[0] == "param" or how[0] == "other":
                alts.append(copy.deepcopy(n))
            elif how[0] == "assign":
                built = self._loop_built(nid, d, node) if isinstance(n, ast.Name) else None
                if built is not None and getattr(built, "_straight", False):
                    alts.append(self.expand(built, node, depth - 1, st))
                elif built is not None:
                    ex = self._expand_comp(built, d, depth - 1, st)
                    if getattr(built, "_is_sum", False):
                        ex = ast.Call(func=ast.Name(id="sum", ctx=ast.Load()), args=[ex], keywords=[])
                    if getattr(built, "_sorted_after", False):
                        ex = ast.Call(func=ast.Name(id="sorted", ctx=ast.Load()), args=[ex], keywords=[])
                    alts.append(ex)
                else:
                    alts.append(self.expand(how[1], d, depth - 1, st))
            elif how[0] == "unpack":
                v = self.expand(how[1], d, depth - 1, st)
                for i in how[2]:
                    if isinstance(v, (ast.Tuple, ast.List)) and isinstance(i, int) and i < len(v.elts) and not any(isinstance(x, ast.Starred) for x in v.elts):
                        v = v.elts[i]
                    else:
                        v = self._call("__item__", v, ast.Constant(value=i))
                alts.append(v)
            elif how[0] == "aug":
                prev = self._expand_name(copy.deepcopy(n), d, depth - 1, st)
                alts.append(ast.BinOp(left=prev, op=how[1], right=self.expand(how[2], d, depth - 1, st)))
            elif how[0] == "iter":
                alts.append(self._iter_value(how[1], how[2], d, depth, st))
        # de-duplicate structurally
        uniq, seen, udefs = [], set(), []
        for a, d in zip(alts, sorted(defs, key=lambda x: x.id)):
            k = ast.dump(a)
            if k not in seen:
                seen.add(k)
                uniq.append(a)
                udefs.append(d)
        if len(uniq) == 1:
            return uniq[0]
        if getattr(self, "gated", False) and len(uniq) >= 2:
            items = list(zip(uniq, udefs))
            merged = True
            while merged and len(items) > 1:
                merged = False
                for i in range(len(items)):
                    for j in range(i + 1, len(items)):
                        g = self._gate(items[i][1], items[j][1], node)
                        if g is None:
                            continue
                        test, first_is_true = g
                        t = self.expand(test.expr, test, depth - 1, stack)
                        a, b = (items[i][0], items[j][0]) if first_is_true else (items[j][0], items[i][0])
                        gam = self._call("__gamma__", t, a, b)
                        items = [x for k, x in enumerate(items) if k not in (i, j)] + [(gam, test)]
                        merged = True
                        break
                    if merged:
                        break
            if len(items) == 1:
                return items[0][0]
            return self._call("__phi__", *[x for x, _ in items])
        return self._call("__phi__", *uniq)

    def _gate(self, d1, d2, use):
        """a test node whose two edges separate the definitions d1 / d2 (gated phi): returns (test node, d1-on-true-edge)"""
        cfg = self.cfg
        e1 = {(t, lab) for t, lab in cfg.edges_dominating(d1) if t.kind == "test"}
        e2 = {(t, lab) for t, lab in cfg.edges_dominating(d2) if t.kind == "test"}
        for t, lab in e1:
            if (t, not lab) in e2:
                # the test's own inputs must not be redefined between the test and the use: accept when no definition of
                # a name read by the test lies on a path test -> use
                names = {x.id for x in ast.walk(t.expr) if isinstance(x, ast.Name)}
                between = cfg.reach(t, avoid={use}) if use is not None else set()
                clobber = any(n in self._defs and names & set(self._defs[n]) for n in between if n is not t)
                if not clobber:
                    return t, bool(lab)
        # `if c: x = new` without else: the earlier definition survives on the other edge
        for (da, ea, db, first) in ((d1, e1, d2, True), (d2, e2, d1, False)):
            for t, lab in ea:
                if self.cfg.dominates(db, t) and (use is None or self.cfg.dominates(t, use)) and (t, not lab) not in ea:
                    edge = [x for x in t.succ if x.kind == "edge" and x.label is lab]
                    if not edge or use is None or use in cfg.reach(edge[0], avoid={da}):
                        continue          # on this edge the use can be reached without passing the new definition
                    names = {x.id for x in ast.walk(t.expr) if isinstance(x, ast.Name)}
                    between = cfg.reach(t, avoid={use}) if use is not None else set()
                    # the variable itself may be (re)defined on the gated edge - that is da; other inputs of the test must be stable
                    clobber = any(n in self._defs and (names & set(self._defs[n])) and n is not da for n in between if n is not t)
                    if not clobber:
                        # da holds on edge `lab`, db on the other one
                        return t, (bool(lab) if first else (not bool(lab)))
        return None

    def _running_extreme(self, name, defs, use, depth, stack):
        """`m = INIT; for x in S: if E(x) > m: m = E(x)` read after the loop is max(INIT, max(E(x) for x in S)) - and just
        max(E(x) for x in S) when INIT is E of the first element (`m = S[0]...`); `<` gives min.  None when the two definitions are
        not of that shape."""
        d_init = d_upd = None
        for d in defs:
            how = self.def_how(d, name)
            if how[0] != "assign":
                return None
            loops = [t for t, lab in self.cfg.edges_dominating(d) if t.kind == "for" and lab is True]
            if loops:
                d_upd = (d, how[1], loops[-1])
            else:
                d_init = (d, how[1])
        if d_init is None or d_upd is None:
            return None
        dn, val, loop = d_upd
        if use in self.cfg.loop_body_nodes(loop) or not self.cfg.dominates(d_init[0], loop):
            return None
        # the accumulate form  m = max(m, E)  (also what the loader makes of `if E > m: m = E`)
        if isinstance(val, ast.Call) and isinstance(val.func, ast.Name) and val.func.id in ("max", "min") and len(val.args) == 2 and not val.keywords \
                and dn.stmt in loop.stmt.body and sum(1 for a in val.args if isinstance(a, ast.Name) and a.id == name) == 1:
            kind0 = val.func.id
            other = [a for a in val.args if not (isinstance(a, ast.Name) and a.id == name)][0]
            stores = [x for x in ast.walk(loop.stmt) if isinstance(x, ast.Name) and x.id == name and isinstance(x.ctx, ast.Store)]
            if len(stores) == 1 and not any(isinstance(x, ast.Name) and x.id == name for x in ast.walk(other)):
                gen0 = ast.comprehension(target=copy.deepcopy(loop.stmt.target), iter=copy.deepcopy(loop.stmt.iter), ifs=[], is_async=0)
                comp0 = ast.fix_missing_locations(ast.copy_location(ast.GeneratorExp(elt=copy.deepcopy(other), generators=[gen0]), loop.stmt))
                ex0 = self._expand_comp(comp0, loop, depth - 1, stack + ((name, dn.id),))
                inner0 = ast.Call(func=ast.Name(id=kind0, ctx=ast.Load()), args=[ex0], keywords=[])
                init0 = self.expand(d_init[1], d_init[0], depth - 1, stack + ((name, d_init[0].id),))
                first0 = ast.Subscript(value=copy.deepcopy(loop.stmt.iter), slice=ast.Constant(value=0), ctx=ast.Load())
                env0 = {}

                def bind0(tg, v):
                    if isinstance(tg, ast.Name):
                        env0[tg.id] = v
                    elif isinstance(tg, (ast.Tuple, ast.List)):
                        for i, x in enumerate(tg.elts):
                            bind0(x, ast.Subscript(value=copy.deepcopy(v), slice=ast.Constant(value=i), ctx=ast.Load()))
                bind0(loop.stmt.target, first0)
                e_first0 = self.expand(_subst_names(copy.deepcopy(other), env0), loop, depth - 1, stack)
                if " ".join(ast.unparse(init0).split()) == " ".join(ast.unparse(e_first0).split()):
                    return inner0
                # head/tail split: INIT = T[0] and the loop runs over T[1:] keeping the element itself  ->  the extreme over all of T
                it_x = self.expand(copy.deepcopy(loop.stmt.iter), loop, depth - 1, stack)
                if isinstance(it_x, ast.Subscript) and isinstance(it_x.slice, ast.Slice) and it_x.slice.upper is None and it_x.slice.step is None \
                        and isinstance(it_x.slice.lower, ast.Constant) and it_x.slice.lower.value == 1:
                    def unlist(b_):
                        while isinstance(b_, ast.Call) and isinstance(b_.func, ast.Name) and b_.func.id in ("list", "tuple") and len(b_.args) == 1 and not b_.keywords:
                            b_ = b_.args[0]
                        return b_
                    base = unlist(it_x.value)
                    init_alt = None
                    if isinstance(init0, ast.Subscript) and isinstance(init0.slice, ast.Constant) and init0.slice.value == 0:
                        init_alt = unlist(init0.value)
                    elif isinstance(init0, ast.Call) and isinstance(init0.func, ast.Name) and init0.func.id == "__item__" and len(init0.args) == 2 \
                            and isinstance(init0.args[1], ast.Constant) and init0.args[1].value == 0:
                        init_alt = unlist(init0.args[0])
                    norm = lambda x_: " ".join(ast.unparse(x_).split())
                    if init_alt is not None and norm(init_alt) == norm(base) and norm(other) == norm(loop.stmt.target):
                        return ast.fix_missing_locations(ast.copy_location(ast.Call(func=ast.Name(id=kind0, ctx=ast.Load()), args=[copy.deepcopy(base)], keywords=[]), loop.stmt))
                return ast.Call(func=ast.Name(id=kind0, ctx=ast.Load()), args=[init0, inner0], keywords=[])
        # the update is the only statement under a comparison of its own value with the running variable, directly in the loop
        tests = [(t, lab) for t, lab in self.cfg.edges_dominating(dn) if t.kind == "test" and self.cfg.dominates(loop, t)]
        if len(tests) != 1:
            return None
        t, lab = tests[0]
        st_if = t.stmt
        if not (isinstance(st_if, ast.If) and not st_if.orelse and len(st_if.body) == 1 and st_if.body[0] is dn.stmt and st_if in loop.stmt.body):
            return None
        c = t.expr
        neg = False
        while isinstance(c, ast.UnaryOp) and isinstance(c.op, ast.Not):
            c, neg = c.operand, not neg
        if not (isinstance(c, ast.Compare) and len(c.ops) == 1):
            return None
        l, op, r = c.left, type(c.ops[0]), c.comparators[0]
        if neg:
            op = {ast.Gt: ast.LtE, ast.GtE: ast.Lt, ast.Lt: ast.GtE, ast.LtE: ast.Gt}.get(op)
        if op not in (ast.Gt, ast.GtE, ast.Lt, ast.LtE):
            return None
        same = lambda a, b: ast.dump(a) == ast.dump(b)
        run = lambda a: isinstance(a, ast.Name) and a.id == name
        # arg-extreme: `best = S[0]; for x in S: if K(x) > K(best): best = x`  is  max(S, key=lambda x: K(x))  (strict comparison keeps the
        # first extreme element, as max/min do)
        if isinstance(val, ast.Name) and isinstance(loop.stmt.target, ast.Name) and val.id == loop.stmt.target.id and op in (ast.Gt, ast.Lt) \
                and not run(l) and not run(r):
            xv = val.id
            k_of_run_l = _subst_names(copy.deepcopy(l), {xv: ast.Name(id=name, ctx=ast.Load())})
            k_of_run_r = _subst_names(copy.deepcopy(r), {xv: ast.Name(id=name, ctx=ast.Load())})
            uses_x = lambda e_: any(isinstance(y, ast.Name) and y.id == xv for y in ast.walk(e_))
            kx = kind_k = None
            if uses_x(l) and same(k_of_run_l, r):
                kx, kind_k = l, ("max" if op is ast.Gt else "min")
            elif uses_x(r) and same(k_of_run_r, l):
                kx, kind_k = r, ("min" if op is ast.Gt else "max")
            others_k = [x for x in ast.walk(loop.stmt) if isinstance(x, ast.Name) and x.id == name and isinstance(x.ctx, ast.Store)]
            if kx is not None and len(others_k) == 1:
                init_k = self.expand(d_init[1], d_init[0], depth - 1, stack + ((name, d_init[0].id),))
                it_k = self.expand(copy.deepcopy(loop.stmt.iter), loop, depth - 1, stack)
                first_k = ast.Subscript(value=copy.deepcopy(it_k), slice=ast.Constant(value=0), ctx=ast.Load())
                tail = isinstance(it_k, ast.Subscript) and isinstance(it_k.slice, ast.Slice) and it_k.slice.upper is None and it_k.slice.step is None \
                    and isinstance(it_k.slice.lower, ast.Constant) and it_k.slice.lower.value == 1
                whole = it_k.value if tail else it_k
                first_w = ast.Subscript(value=copy.deepcopy(whole), slice=ast.Constant(value=0), ctx=ast.Load())
                nrm = lambda e_: " ".join(ast.unparse(e_).split())
                if nrm(init_k) in (nrm(first_k), nrm(first_w)):
                    lam = ast.Lambda(args=ast.arguments(posonlyargs=[], args=[ast.arg(arg=xv)], kwonlyargs=[], kw_defaults=[], defaults=[]), body=copy.deepcopy(kx))
                    return ast.fix_missing_locations(ast.copy_location(
                        ast.Call(func=ast.Name(id=kind_k, ctx=ast.Load()), args=[copy.deepcopy(whole)], keywords=[ast.keyword(arg="key", value=lam)]), loop.stmt))
            return None
        if run(r) and same(l, val):
            kind = "max" if op in (ast.Gt, ast.GtE) else "min"
        elif run(l) and same(r, val):
            kind = "min" if op in (ast.Gt, ast.GtE) else "max"
        else:
            return None
        # nothing else in the loop writes the running variable
        others = [x for x in ast.walk(loop.stmt) if isinstance(x, ast.Name) and x.id == name and isinstance(x.ctx, ast.Store)]
        if len(others) != 1:
            return None
        gen = ast.comprehension(target=copy.deepcopy(loop.stmt.target), iter=copy.deepcopy(loop.stmt.iter), ifs=[], is_async=0)
        comp = ast.fix_missing_locations(ast.copy_location(ast.GeneratorExp(elt=copy.deepcopy(val), generators=[gen]), loop.stmt))
        ex = self._expand_comp(comp, loop, depth - 1, stack + ((name, dn.id),))
        inner = ast.Call(func=ast.Name(id=kind, ctx=ast.Load()), args=[ex], keywords=[])
        init_x = self.expand(d_init[1], d_init[0], depth - 1, stack + ((name, d_init[0].id),))
        # INIT = E(first element): the element expression with the loop variable(s) standing for S[0]
        first = ast.Subscript(value=copy.deepcopy(loop.stmt.iter), slice=ast.Constant(value=0), ctx=ast.Load())
        env = {}

        def bind(tg, v):
            if isinstance(tg, ast.Name):
                env[tg.id] = v
            elif isinstance(tg, (ast.Tuple, ast.List)):
                for i, x in enumerate(tg.elts):
                    bind(x, ast.Subscript(value=copy.deepcopy(v), slice=ast.Constant(value=i), ctx=ast.Load()))
        bind(loop.stmt.target, first)
        e_first = self.expand(_subst_names(copy.deepcopy(val), env), loop, depth - 1, stack)
        if " ".join(ast.unparse(init_x).split()) == " ".join(ast.unparse(e_first).split()):
            return inner
        return ast.Call(func=ast.Name(id=kind, ctx=ast.Load()), args=[init_x, inner], keywords=[])

    def _loop_built(self, name, defnode, use):
        """`L = []` (or `{}`) filled by append / item assignment inside one `for` loop between the definition and the use is
        returned as the equivalent comprehension (loop <-> comprehension is a behaviour-preserving rewrite); None otherwise."""
        how = self._defs[defnode].get(name)
        if not how or how[0] != "assign":
            return None
        init = how[1]
        is_list = (isinstance(init, ast.List) and not init.elts) or (isinstance(init, ast.Call) and call_name(init) == "list" and not init.args)
        is_dict = (isinstance(init, ast.Dict) and not init.keys) or (isinstance(init, ast.Call) and call_name(init) in ("dict", "OrderedDict") and not init.args and not init.keywords)
        is_sum = isinstance(init, ast.Constant) and isinstance(init.value, (int, float)) and not isinstance(init.value, bool) and init.value == 0
        if not (is_list or is_dict or is_sum):
            return None
        sites = []          # (kind, payload, for_stack, cond_stack, temps)
        acc_stmts = []
        def_stack = [None]

        def walk(stmts, fors, conds, temps):
            temps = list(temps)
            conds = list(conds)
            for s in stmts:
                if s is defnode.stmt:
                    def_stack[0] = (tuple(fors), len(conds))
                if isinstance(s, ast.If) and len(s.body) == 1 and isinstance(s.body[0], ast.Continue) and not s.orelse and fors:
                    conds = conds + [(s.test, False)]          # guard clause: the rest of the iteration runs under `not test`
                    continue
                if isinstance(s, ast.Assign) and len(s.targets) == 1 and isinstance(s.targets[0], ast.Name) and fors:
                    temps.append((s.targets[0].id, s.value))
                if isinstance(s, ast.AnnAssign) and isinstance(s.target, ast.Name) and s.value is not None and fors:
                    temps.append((s.target.id, s.value))
                if isinstance(s, ast.Expr) and isinstance(s.value, ast.Call) and isinstance(s.value.func, ast.Attribute) and \
                        isinstance(s.value.func.value, ast.Name) and s.value.func.value.id == name:
                    cv = s.value
                    if is_list and cv.func.attr == "extend" and len(cv.args) == 1 and isinstance(cv.args[0], (ast.List, ast.Tuple)) and len(cv.args[0].elts) == 1 \
                            and not isinstance(cv.args[0].elts[0], ast.Starred):
                        cv = ast.fix_missing_locations(ast.copy_location(ast.Call(func=ast.Attribute(value=ast.Name(id=name, ctx=ast.Load()), attr="append", ctx=ast.Load()),
                                                                                   args=[cv.args[0].elts[0]], keywords=[]), s))
                    sites.append((cv.func.attr, cv, tuple(fors), tuple(conds), tuple(temps)))
                elif isinstance(s, ast.Assign) and any(isinstance(t, ast.Subscript) and isinstance(t.value, ast.Name) and t.value.id == name for t in s.targets):
                    sites.append(("setitem", s, tuple(fors), tuple(conds), tuple(temps)))
                elif is_sum and isinstance(s, ast.AugAssign) and isinstance(s.target, ast.Name) and s.target.id == name and isinstance(s.op, ast.Add) \
                        and not any(isinstance(x, ast.Name) and x.id == name for x in ast.walk(s.value)):
                    sites.append(("accumulate", s, tuple(fors), tuple(conds), tuple(temps)))
                    acc_stmts.append(s)
                elif is_sum and isinstance(s, ast.Assign) and len(s.targets) == 1 and isinstance(s.targets[0], ast.Name) and s.targets[0].id == name and fors \
                        and isinstance(s.value, ast.BinOp) and isinstance(s.value.op, ast.Add) and isinstance(s.value.left, ast.Name) and s.value.left.id == name \
                        and not any(isinstance(x, ast.Name) and x.id == name for x in ast.walk(s.value.right)):
                    sites.append(("accumulate", ast.AugAssign(target=s.targets[0], op=ast.Add(), value=s.value.right), tuple(fors), tuple(conds), tuple(temps)))
                    acc_stmts.append(s)
                elif is_list and isinstance(s, ast.AugAssign) and isinstance(s.target, ast.Name) and s.target.id == name and isinstance(s.op, ast.Add) \
                        and isinstance(s.value, (ast.List, ast.Tuple)) and len(s.value.elts) == 1 and not isinstance(s.value.elts[0], ast.Starred) \
                        and not any(isinstance(x, ast.Name) and x.id == name for x in ast.walk(s.value)):
                    # a list grown by `L += [e]` (also what the loader makes of `L = L + [e]`) is `L.append(e)`
                    call_ = ast.fix_missing_locations(ast.copy_location(ast.Call(func=ast.Attribute(value=ast.Name(id=name, ctx=ast.Load()), attr="append", ctx=ast.Load()),
                                                                                  args=[s.value.elts[0]], keywords=[]), s))
                    sites.append(("append", call_, tuple(fors), tuple(conds), tuple(temps)))
                    acc_stmts.append(s)
                elif isinstance(s, (ast.AugAssign, ast.Delete)) and any(isinstance(x, ast.Name) and x.id == name for x in ast.walk(s)):
                    sites.append(("other", s, tuple(fors), tuple(conds), tuple(temps)))
                if isinstance(s, ast.For):
                    walk(s.body, fors + [s], conds, temps)
                    walk(s.orelse, fors, conds, temps)
                elif isinstance(s, ast.If):
                    walk(s.body, fors, conds + [(s.test, True)], temps)
                    walk(s.orelse, fors, conds + [(s.test, False)], temps)
                    # `if c: x = a / else: x = b` inside the loop selects a value: later uses of x read `a if c else b`
                    if fors and len(s.body) == 1 and len(s.orelse) == 1 and all(
                            isinstance(b_, ast.Assign) and len(b_.targets) == 1 and isinstance(b_.targets[0], ast.Name) for b_ in (s.body[0], s.orelse[0])) \
                            and s.body[0].targets[0].id == s.orelse[0].targets[0].id:
                        temps.append((s.body[0].targets[0].id, ast.IfExp(test=s.test, body=s.body[0].value, orelse=s.orelse[0].value)))
                elif isinstance(s, (ast.While, ast.With, ast.Try)):
                    for fld in ("body", "orelse", "finalbody"):
                        walk(getattr(s, fld, []) or [], fors + ["?"], conds, temps)
                    for h in getattr(s, "handlers", []) or []:
                        walk(h.body, fors + ["?"], conds, temps)
        walk(self.fn.body, [], [], [])
        if not sites or def_stack[0] is None:
            return None
        outer, ncond = def_stack[0]
        # `L.sort()` (no key / reverse) at the nesting level of the definition, after the appends: the list read afterwards is sorted(<what
        # was built>).  Only when the read we expand for comes after the sort.
        sorted_after = False
        if is_list and len(sites) >= 2 and sites[-1][0] == "sort" and not sites[-1][1].args and not sites[-1][1].keywords \
                and sites[-1][2] == outer and len(sites[-1][3]) == ncond and all(k == "append" for k, *_ in sites[:-1]):
            sort_nodes = [n for n in self.cfg.nodes if n.kind == "stmt" and isinstance(n.stmt, ast.Expr) and n.stmt.value is sites[-1][1]]
            if sort_nodes and use is not None and self.cfg.dominates(sort_nodes[0], use):
                sorted_after = True
                sites = sites[:-1]
        # straight-line construction: `L = []; L.append(a); L.append(b)` at the nesting level of the definition is the literal [a, b]
        if is_list and all(k == "append" and len(c.args) == 1 and f == outer and len(conds) == ncond for k, c, f, conds, _ in sites):
            if use is not None and all(self.cfg.by_stmt.get(id(st_)) is not None for st_ in []):
                pass
            nodes_ = []
            for k, c, f, conds, _ in sites:
                nd = [n for n in self.cfg.nodes if n.kind == "stmt" and isinstance(n.stmt, ast.Expr) and n.stmt.value is c]
                if not nd:
                    return None
                nodes_.append(nd[0])
            if use is not None and not all(self.cfg.dominates(nd, use) for nd in nodes_):
                return None
            lit = ast.List(elts=[copy.deepcopy(c.args[0]) for k, c, *_ in sites], ctx=ast.Load())
            lit._straight = True
            return ast.fix_missing_locations(ast.copy_location(lit, sites[0][1]))
        # the appends sit in exactly one loop below the nesting level at which the container was created
        if any(len(f) != len(outer) + 1 or f[:len(outer)] != outer or f[-1] == "?" for _, _, f, _, _ in sites):
            return None
        loop = sites[0][2][-1]
        if any(f[-1] is not loop for _, _, f, _, _ in sites):
            return None
        sites = [(k, c, f, conds[ncond:], tuple(t for t in temps)) for k, c, f, conds, temps in sites]
        ln = self.cfg.by_stmt.get(id(loop))
        if ln is None or ln not in self.cfg.reach(defnode) or (use is not None and use not in self.cfg.reach(ln)):
            return None
        if use is not None and use in self.cfg.loop_body_nodes(ln):
            return None                       # used while still being built
        if is_list and not all(k == "append" and len(c.args) == 1 for k, c, *_ in sites):
            return None
        if is_dict and not all(k == "setitem" for k, *_ in sites):
            return None
        if is_sum and not (len(sites) == 1 and sites[0][0] == "accumulate"):
            return None
        import copy as _copy

        def subst(e, temps):
            e = _copy.deepcopy(e)
            for nm, val in reversed(temps):
                class T(ast.NodeTransformer):
                    def visit_Name(self, x):
                        if x.id == nm and isinstance(x.ctx, ast.Load):
                            return _copy.deepcopy(val)
                        return x
                e = T().visit(e)
            return e

        def cond_of(conds, temps):
            parts = []
            for t, lab in conds:
                t2 = subst(t, temps)
                parts.append(t2 if lab else _negate(t2))
            return parts

        def elt_of(site):
            k, c, _, _, temps = site
            if is_sum:
                return subst(c.value, temps), None
            if is_list:
                return subst(c.args[0], temps), None
            tgt = [t for t in c.targets if isinstance(t, ast.Subscript)][0]
            return subst(c.value, temps), subst(tgt.slice, temps)
        gen_ifs = []
        if len(sites) == 1:
            v, key = elt_of(sites[0])
            gen_ifs = cond_of(sites[0][3], sites[0][4])
        elif len(sites) == 2 and len(sites[0][3]) == 1 and len(sites[1][3]) == 1 and sites[0][3][0][0] is sites[1][3][0][0] \
                and sites[0][3][0][1] != sites[1][3][0][1]:
            a, b = (sites[0], sites[1]) if sites[0][3][0][1] else (sites[1], sites[0])
            (va, ka), (vb, kb) = elt_of(a), elt_of(b)
            test = subst(a[3][0][0], a[4])
            v = ast.IfExp(test=test, body=va, orelse=vb)
            key = ka if is_dict and ka is not None and kb is not None and ast.dump(ka) == ast.dump(kb) else (None if is_list else False)
            if key is False:
                return None
        else:
            return None
        gen = ast.comprehension(target=_copy.deepcopy(loop.target), iter=_copy.deepcopy(loop.iter), ifs=gen_ifs, is_async=0)
        if is_sum:
            comp = ast.GeneratorExp(elt=v, generators=[gen])
            self._sum_built = getattr(self, "_sum_built", set())
            self._sum_built.add(id(comp))
            comp._is_sum = True
            comp._acc_stmts = acc_stmts
            return ast.fix_missing_locations(ast.copy_location(comp, loop))
        comp = ast.ListComp(elt=v, generators=[gen]) if is_list else ast.DictComp(key=key, value=v, generators=[gen])
        comp = ast.fix_missing_locations(ast.copy_location(comp, loop))
        if sorted_after:
            comp._sorted_after = True
        comp._acc_stmts = acc_stmts
        return comp

    def used_defs(self, expr, node, _seen=None):
        """transitive set of (name, defnode) of local definitions the value of expr at node depends on."""
        seen = _seen if _seen is not None else set()
        names = []
        for e in [expr] + list(walk_local(expr)):
            if isinstance(e, ast.Name) and isinstance(e.ctx, ast.Load):
                names.append(e.id)
            elif self.track_self and isinstance(e, ast.Attribute) and isinstance(e.value, ast.Name) and e.value.id == "self":
                names.append(f"self.{e.attr}")
        for nm in names:
            for d in self.defs_at(node, nm):
                if (nm, d) in seen:
                    continue
                how = self.def_how(d, nm)
                if how[0] in ("param", "other"):
                    continue
                seen.add((nm, d))
                if how[0] in ("assign", "unpack", "iter"):
                    self.used_defs(how[1], d, seen)
                elif how[0] == "aug":
                    self.used_defs(how[2], d, seen)
                    self.used_defs(ast.Name(id=nm, ctx=ast.Load()) if not nm.startswith("self.") else
                                   ast.Attribute(value=ast.Name(id="self", ctx=ast.Load()), attr=nm[5:], ctx=ast.Load()), d, seen)
        return seen

    def _iter_value(self, it, path, d, depth, st):
        itx = self.expand(it, d, depth - 1, st)
        while isinstance(itx, ast.Call) and call_name(itx) in ("list", "tuple", "iter") and len(itx.args) == 1 and not itx.keywords:
            itx = itx.args[0]
        cn = call_name(itx)
        # iterating a mapping comprehension  [g(s) for s in S]  yields  g(<element of S>)
        inner = itx.args[0] if cn == "enumerate" and itx.args else itx
        while isinstance(inner, ast.Call) and call_name(inner) in ("list", "tuple") and len(inner.args) == 1:
            inner = inner.args[0]
        if isinstance(inner, (ast.ListComp, ast.GeneratorExp)) and len(inner.generators) == 1 and not inner.generators[0].ifs:
            g = inner.generators[0]
            if cn == "enumerate" and path and path[0] == 0:
                return self._iter_value_expanded(ast.Call(func=ast.Name(id="enumerate", ctx=ast.Load()), args=[g.iter], keywords=[]), path, depth, st)
            epath = path[1:] if cn == "enumerate" else path
            if cn != "enumerate" or (path and path[0] == 1):
                mapping = {}

                def bind(t, p):
                    if isinstance(t, ast.Name):
                        mapping[t.id] = self._iter_value_expanded(g.iter, p, depth, st)
                    elif isinstance(t, (ast.Tuple, ast.List)):
                        for i, x in enumerate(t.elts):
                            bind(x, p + (i,))
                bind(g.target, ())
                v = _subst_names(copy.deepcopy(inner.elt), mapping)
                for i in epath:
                    if isinstance(v, (ast.Tuple, ast.List)) and isinstance(i, int) and i < len(v.elts):
                        v = v.elts[i]
                    else:
                        v = self._call("__item__", v, ast.Constant(value=i))
                return v
        return self._iter_value_expanded(itx, path, depth, st)

    def _iter_value_expanded(self, itx, path, depth, st):
        itx = _strip_seq(itx)
        cn = call_name(itx)
        if cn in ("enumerate", "zip") and itx.args:
            itx = ast.Call(func=itx.func, args=[_strip_seq(a) for a in itx.args], keywords=itx.keywords)
        elif cn == "range" and len(itx.args) == 1 and call_name(itx.args[0]) == "len" and itx.args[0].args:
            itx = ast.Call(func=itx.func, args=[ast.Call(func=itx.args[0].func, args=[_strip_seq(itx.args[0].args[0])], keywords=[])], keywords=[])
        if cn == "enumerate" and itx.args and path:
            base = itx.args[0]
            v = self._call("__idx__", base) if path[0] == 0 else self._call("__elem__", base)
            for i in path[1:]:
                v = self._call("__item__", v, ast.Constant(value=i))
            return v
        if cn == "items" and isinstance(itx.func, ast.Attribute) and path:
            base = itx.func.value
            v = self._call("__key__", base) if path[0] == 0 else self._call("__val__", base)
            for i in path[1:]:
                v = self._call("__item__", v, ast.Constant(value=i))
            return v
        if cn == "range" and len(itx.args) == 1 and call_name(itx.args[0]) == "len" and not path:
            return self._call("__idx__", itx.args[0].args[0])
        if cn == "zip" and path:
            v = self._call("__elem__", itx.args[path[0]]) if path[0] < len(itx.args) else self._call("__unk__")
            rest = list(path[1:])
            # zip(X, [g(s) for s in X]): the k-th element of the second list is g(<k-th element of X>) - a per-element value that was
            # computed in a loop of its own and is walked in step with X
            if path[0] < len(itx.args):
                a = itx.args[path[0]]
                while isinstance(a, ast.Call) and call_name(a) in ("list", "tuple") and len(a.args) == 1:
                    a = a.args[0]
                if isinstance(a, (ast.ListComp, ast.GeneratorExp)) and len(a.generators) == 1 and not a.generators[0].ifs:
                    g = a.generators[0]
                    others = [x for j, x in enumerate(itx.args) if j != path[0]]
                    same = [x for x in others if " ".join(ast.unparse(x).split()) == " ".join(ast.unparse(g.iter).split())]
                    if same:
                        mapping = {}

                        def bind(t, p):
                            if isinstance(t, ast.Name):
                                mapping[t.id] = self._iter_value_expanded(same[0], p, depth, st) if p else self._call("__elem__", same[0])
                            elif isinstance(t, (ast.Tuple, ast.List)):
                                for i_, x_ in enumerate(t.elts):
                                    bind(x_, p + (i_,))
                        bind(g.target, ())
                        v = _subst_names(copy.deepcopy(a.elt), mapping)
                        while rest and isinstance(v, (ast.Tuple, ast.List)) and isinstance(rest[0], int) and rest[0] < len(v.elts):
                            v = v.elts[rest.pop(0)]
            for i in rest:
                v = self._call("__item__", v, ast.Constant(value=i))
            return v
        if cn in ("keys",) and isinstance(itx.func, ast.Attribute) and not path:
            return self._call("__key__", itx.func.value)
        if cn in ("values",) and isinstance(itx.func, ast.Attribute) and not path:
            return self._call("__val__", itx.func.value)
        v = self._call("__elem__", itx)
        for i in path:
            v = self._call("__item__", v, ast.Constant(value=i))
        return v


# ----------------------------------------------------------------------------
# leaves / linear forms over (expanded) expressions
# ----------------------------------------------------------------------------

def leaves(expr, calls=True):
    """set of root strings: dotted names, 'f()' for calls (args recursed), subscripted bases."""
    out = set()

    def go(e):
        if isinstance(e, ast.Constant):
            return
        d = dotted(e)
        if d is not None:
            out.add(d)
            return
        if isinstance(e, ast.Call):
            fd = dotted(e.func)
            if fd is not None:
                if not fd.startswith("__"):
                    if calls:
                        out.add(fd + "()")
                    if isinstance(e.func, ast.Attribute):
                        go(e.func.value)
            else:
                go(e.func)
            for a in e.args:
                go(a)
            for k in e.keywords:
                go(k.value)
            return
        if isinstance(e, ast.Lambda):
            go(e.body)
            return
        for c in ast.iter_child_nodes(e):
            if isinstance(c, (ast.expr, ast.comprehension, ast.keyword, ast.slice if hasattr(ast, "slice") else ast.expr)):
                go(c)
    go(expr)
    return out


def mentions(expr, *names):
    """does the (expanded) expression mention any dotted name ending with one of names?"""
    for e in [expr] + list(ast.walk(expr)):
        d = dotted(e)
        if d is not None:
            for nm in names:
                if d == nm or d.endswith("." + nm):
                    return True
        if isinstance(e, ast.Attribute) and e.attr in names:
            return True
    return False


class Lin:
    """linear form: {term: coef} + const; terms are canonical source strings."""

    def __init__(self, terms=None, const=0):
        self.t = {k: v for k, v in (terms or {}).items() if v != 0}
        self.c = const

    def __add__(s, o):
        t = dict(s.t)
        for k, v in o.t.items():
            t[k] = t.get(k, 0) + v
        return Lin(t, s.c + o.c)

    def scale(s, f):
        return Lin({k: v * f for k, v in s.t.items()}, s.c * f)

    def __sub__(s, o):
        return s + o.scale(-1)

    def __eq__(s, o):
        return isinstance(o, Lin) and s.t == o.t and s.c == o.c

    def __hash__(s):
        return hash((tuple(sorted(s.t.items())), s.c))

    def __repr__(s):
        parts = [f"{v:+g}*{k}" for k, v in sorted(s.t.items())]
        if s.c or not parts:
            parts.append(f"{s.c:+g}")
        return " ".join(parts)


def linear(e, norm=None):
    """Linear form of an arithmetic expression; non-arithmetic sub-terms become atoms.
    `norm` optionally canonicalises atom strings (e.g. property synonyms)."""
    if isinstance(e, ast.Constant) and isinstance(e.value, (int, float)) and not isinstance(e.value, bool):
        return Lin({}, e.value)
    if isinstance(e, ast.UnaryOp) and isinstance(e.op, ast.USub):
        return linear(e.operand, norm).scale(-1)
    if isinstance(e, ast.UnaryOp) and isinstance(e.op, ast.UAdd):
        return linear(e.operand, norm)
    if isinstance(e, ast.BinOp) and isinstance(e.op, ast.Add):
        return linear(e.left, norm) + linear(e.right, norm)
    if isinstance(e, ast.BinOp) and isinstance(e.op, ast.Sub):
        return linear(e.left, norm) - linear(e.right, norm)
    if isinstance(e, ast.BinOp) and isinstance(e.op, ast.Mult):
        l, r = linear(e.left, norm), linear(e.right, norm)
        if not l.t:
            return r.scale(l.c)
        if not r.t:
            return l.scale(r.c)
    s = " ".join(ast.unparse(e).split())
    if norm:
        s = norm(s)
    return Lin({s: 1}, 0)


def same_expr(a, b):
    return ast.dump(a) == ast.dump(b)


def _subst_names(e, mapping):
    class T(ast.NodeTransformer):
        def visit_Name(self, n):
            if n.id in mapping and isinstance(n.ctx, ast.Load):
                return copy.deepcopy(mapping[n.id])
            return n

        def visit_Lambda(self, n):
            return n
    return T().visit(e)


def fuse_comprehension(comp):
    """[f(e) for e in [g(s) for s in S if p(s)] if q(e)]  ->  [f(g(s)) for s in S if p(s) if q(g(s))]   (single generators;
    tuple targets are matched against a tuple element).  Loop fusion is behaviour-preserving for side-effect-free elements,
    which is what the rules assume of the expressions they compare anyway."""
    if not isinstance(comp, (ast.ListComp, ast.GeneratorExp, ast.SetComp, ast.DictComp)) or len(comp.generators) != 1:
        return comp
    g = comp.generators[0]
    it = g.iter
    while isinstance(it, ast.Call) and call_name(it) in ("list", "tuple") and len(it.args) == 1 and not it.keywords:
        it = it.args[0]
    if not (isinstance(it, (ast.ListComp, ast.GeneratorExp)) and len(it.generators) == 1):
        return comp
    ig = it.generators[0]
    mapping = {}
    if isinstance(g.target, ast.Name):
        mapping[g.target.id] = it.elt
    elif isinstance(g.target, (ast.Tuple, ast.List)) and isinstance(it.elt, (ast.Tuple, ast.List)) and len(g.target.elts) == len(it.elt.elts) \
            and all(isinstance(t, ast.Name) for t in g.target.elts):
        for t, v in zip(g.target.elts, it.elt.elts):
            mapping[t.id] = v
    else:
        return comp
    inner_names = {n.id for n in ast.walk(ig.target) if isinstance(n, ast.Name)}
    outer_free = {n.id for f in ([comp.elt] if not isinstance(comp, ast.DictComp) else [comp.key, comp.value]) + list(g.ifs) for n in ast.walk(f)
                  if isinstance(n, ast.Name)} - set(mapping)
    if inner_names & outer_free:
        return comp             # capture
    new = copy.copy(comp)
    if isinstance(comp, ast.DictComp):
        new.key = _subst_names(copy.deepcopy(comp.key), mapping)
        new.value = _subst_names(copy.deepcopy(comp.value), mapping)
    else:
        new.elt = _subst_names(copy.deepcopy(comp.elt), mapping)
    new.generators = [ast.comprehension(target=ig.target, iter=ig.iter, ifs=list(ig.ifs) + [_subst_names(copy.deepcopy(c), mapping) for c in g.ifs], is_async=0)]
    return fuse_comprehension(new)


def _strip_seq(e):
    """list(X) / tuple(X) / iter(X) -> X (the sequence of elements is the same)"""
    while isinstance(e, ast.Call) and call_name(e) in ("list", "tuple", "iter") and len(e.args) == 1 and not e.keywords:
        e = e.args[0]
    return e


_NEG_OPS = {ast.Lt: ast.GtE, ast.LtE: ast.Gt, ast.Gt: ast.LtE, ast.GtE: ast.Lt, ast.Eq: ast.NotEq, ast.NotEq: ast.Eq, ast.Is: ast.IsNot, ast.IsNot: ast.Is,
            ast.In: ast.NotIn, ast.NotIn: ast.In}


def _negate(t):
    """logical negation of a test in its simplest form: `not not x` is x, `not (a in b)` is `a not in b`, `not (x is None)` is
    `x is not None`; ordered comparisons keep the `not` (a NaN operand makes `not a <= b` differ from `a > b`)"""
    if isinstance(t, ast.UnaryOp) and isinstance(t.op, ast.Not):
        return t.operand
    if isinstance(t, ast.Compare) and len(t.ops) == 1 and type(t.ops[0]) in (ast.Is, ast.IsNot, ast.In, ast.NotIn, ast.Eq, ast.NotEq):
        return ast.copy_location(ast.Compare(left=t.left, ops=[_NEG_OPS[type(t.ops[0])]()], comparators=t.comparators), t)
    return ast.UnaryOp(op=ast.Not(), operand=t)

"""Constant propagation through constructor chains.

`attrs_after_init(repo, ci, args)` abstractly interprets `ci.__init__` (resolved through the MRO) with the given parameter
values, follows `super().__init__(...)` / `Base.__init__(self, ...)` with the arguments bound to the parent's parameters, and
returns {attribute: value} for the attributes whose value after construction is a constant (UNKNOWN otherwise).  It decides what a
concrete class *ends up with* - e.g. the precedence of an UnplugEvent - however the constant travels: literal store, class-level
constant, keyword passed up to the base class, default applied with `x or default` / `default if x is None else x`.

Nothing is executed: the interpreter is a closed-term evaluator over the statement kinds constructors use (assignments, if with
decidable tests, the super call); everything else leaves UNKNOWN behind."""
import ast

from .core import AnalysisError, const_value, dotted, call_name


class _Unknown:
    def __repr__(self):
        return "UNKNOWN"


UNKNOWN = _Unknown()


def _class_const(repo, ci, name):
    for c in repo.mro(ci):
        if name in c.assigns:
            try:
                return const_value(c.assigns[name])
            except (ValueError, TypeError, ZeroDivisionError):
                return UNKNOWN
        for st in c.node.body:
            if isinstance(st, ast.AnnAssign) and isinstance(st.target, ast.Name) and st.target.id == name and st.value is not None:
                try:
                    return const_value(st.value)
                except (ValueError, TypeError, ZeroDivisionError):
                    return UNKNOWN
    return UNKNOWN


def _ev(e, env, attrs, repo, ci):
    """value of expression e (python constant) or UNKNOWN"""
    try:
        return const_value(e)
    except (ValueError, TypeError, ZeroDivisionError):
        pass
    if isinstance(e, ast.Name):
        return env.get(e.id, UNKNOWN)
    if isinstance(e, ast.Attribute):
        d = dotted(e)
        if d is not None:
            parts = d.split(".")
            if len(parts) == 2 and parts[0] in ("self", "cls"):
                if parts[1] in attrs:
                    return attrs[parts[1]]
                return _class_const(repo, ci, parts[1])
            if len(parts) == 2 and parts[0] in repo.classes:
                return _class_const(repo, repo.cls(parts[0]), parts[1])
        if isinstance(e.value, ast.Call) and call_name(e.value) == "type" and len(e.value.args) == 1 and dotted(e.value.args[0]) == "self":
            return _class_const(repo, ci, e.attr)
        if dotted(e.value) == "self.__class__":
            return _class_const(repo, ci, e.attr)
        return UNKNOWN
    if isinstance(e, ast.BoolOp):
        last = UNKNOWN
        for v in e.values:
            x = _ev(v, env, attrs, repo, ci)
            if x is UNKNOWN:
                return UNKNOWN
            last = x
            if isinstance(e.op, ast.Or) and x:
                return x
            if isinstance(e.op, ast.And) and not x:
                return x
        return last
    if isinstance(e, ast.IfExp):
        t = _ev(e.test, env, attrs, repo, ci)
        if t is UNKNOWN:
            a, b = _ev(e.body, env, attrs, repo, ci), _ev(e.orelse, env, attrs, repo, ci)
            return a if (a is not UNKNOWN and b is not UNKNOWN and a == b and type(a) is type(b)) else UNKNOWN
        return _ev(e.body if t else e.orelse, env, attrs, repo, ci)
    if isinstance(e, ast.UnaryOp):
        v = _ev(e.operand, env, attrs, repo, ci)
        if v is UNKNOWN:
            return UNKNOWN
        try:
            return (not v) if isinstance(e.op, ast.Not) else (-v if isinstance(e.op, ast.USub) else +v)
        except TypeError:
            return UNKNOWN
    if isinstance(e, ast.Compare) and len(e.ops) == 1:
        l, r = _ev(e.left, env, attrs, repo, ci), _ev(e.comparators[0], env, attrs, repo, ci)
        if l is UNKNOWN or r is UNKNOWN:
            return UNKNOWN
        op = e.ops[0]
        try:
            if isinstance(op, ast.Is):
                return (l is r) if (l is None or r is None or isinstance(l, bool) or isinstance(r, bool)) else UNKNOWN
            if isinstance(op, ast.IsNot):
                return (l is not r) if (l is None or r is None or isinstance(l, bool) or isinstance(r, bool)) else UNKNOWN
            if isinstance(op, ast.Eq):
                return l == r
            if isinstance(op, ast.NotEq):
                return l != r
            if isinstance(op, ast.Lt):
                return l < r
            if isinstance(op, ast.LtE):
                return l <= r
            if isinstance(op, ast.Gt):
                return l > r
            if isinstance(op, ast.GtE):
                return l >= r
            if isinstance(op, ast.In):
                return l in r
            if isinstance(op, ast.NotIn):
                return l not in r
        except TypeError:
            return UNKNOWN
        return UNKNOWN
    if isinstance(e, ast.BinOp):
        l, r = _ev(e.left, env, attrs, repo, ci), _ev(e.right, env, attrs, repo, ci)
        if l is UNKNOWN or r is UNKNOWN:
            return UNKNOWN
        try:
            return const_value(ast.BinOp(left=ast.Constant(value=l), op=e.op, right=ast.Constant(value=r)))
        except (ValueError, TypeError, ZeroDivisionError):
            return UNKNOWN
    if isinstance(e, ast.Call) and isinstance(e.func, ast.Name) and e.func.id in ("float", "int", "str", "bool") and len(e.args) == 1 and not e.keywords:
        v = _ev(e.args[0], env, attrs, repo, ci)
        if v is UNKNOWN:
            return UNKNOWN
        try:
            return {"float": float, "int": int, "str": str, "bool": bool}[e.func.id](v)
        except (ValueError, TypeError):
            return UNKNOWN
    return UNKNOWN


def _bind(fn, args, kwargs, env, attrs, repo, ci, skip_self=True):
    """parameter environment of a call to fn.node with (already evaluated) positional / keyword values"""
    a = fn.node.args
    params = [x.arg for x in a.posonlyargs + a.args]
    if skip_self and params:
        params = params[1:]
    out = {}
    defaults = a.defaults
    for p, d in zip(params[len(params) - len(defaults):] if defaults else [], defaults):
        out[p] = _ev(d, {}, {}, repo, ci)
    for p, d in zip(a.kwonlyargs, a.kw_defaults):
        out[p.arg] = _ev(d, {}, {}, repo, ci) if d is not None else UNKNOWN
    for p, v in zip(params, args):
        out[p] = v
    for k, v in kwargs.items():
        out[k] = v
    for p in params + [x.arg for x in a.kwonlyargs]:
        out.setdefault(p, UNKNOWN)
    return out


def _merge(a, b):
    out = {}
    for k in set(a) | set(b):
        x, y = a.get(k, UNKNOWN), b.get(k, UNKNOWN)
        out[k] = x if (x is not UNKNOWN and y is not UNKNOWN and type(x) is type(y) and x == y) else UNKNOWN
    return out


def _block(stmts, env, attrs, repo, ci, owner, depth):
    for s in stmts:
        if isinstance(s, (ast.Assign, ast.AnnAssign)):
            if isinstance(s, ast.AnnAssign) and s.value is None:
                continue
            v = _ev(s.value, env, attrs, repo, ci)
            for t in (s.targets if isinstance(s, ast.Assign) else [s.target]):
                if isinstance(t, ast.Name):
                    env[t.id] = v
                elif isinstance(t, ast.Attribute) and dotted(t.value) == "self":
                    attrs[t.attr] = v
                else:
                    for x in ast.walk(t):
                        if isinstance(x, ast.Attribute) and dotted(x.value) == "self":
                            attrs[x.attr] = UNKNOWN
                        elif isinstance(x, ast.Name) and isinstance(x.ctx, ast.Store):
                            env[x.id] = UNKNOWN
        elif isinstance(s, ast.AugAssign):
            if isinstance(s.target, ast.Name):
                env[s.target.id] = UNKNOWN
            elif isinstance(s.target, ast.Attribute) and dotted(s.target.value) == "self":
                attrs[s.target.attr] = UNKNOWN
        elif isinstance(s, ast.Expr) and isinstance(s.value, ast.Call):
            c = s.value
            f = c.func
            parent = None
            args = list(c.args)
            if isinstance(f, ast.Attribute) and f.attr == "__init__":
                if isinstance(f.value, ast.Call) and call_name(f.value) == "super":
                    mro = repo.mro(ci)
                    idx = [i for i, k in enumerate(mro) if k is owner]
                    rest = mro[idx[0] + 1:] if idx else []
                    parent = next((k for k in rest if "__init__" in k.methods), None)
                elif dotted(f.value) in repo.classes:
                    parent = repo.cls(dotted(f.value))
                    args = args[1:]
            if parent is not None and depth < 8:
                if any(isinstance(x, ast.Starred) for x in args) or any(k.arg is None for k in c.keywords):
                    pa = attrs_after_init(repo, ci, None, _owner=parent, _depth=depth + 1)
                else:
                    av = [_ev(x, env, attrs, repo, ci) for x in args]
                    kv = {k.arg: _ev(k.value, env, attrs, repo, ci) for k in c.keywords}
                    pa = attrs_after_init(repo, ci, (av, kv), _owner=parent, _depth=depth + 1)
                attrs.update(pa)
            elif isinstance(f, ast.Name) and f.id == "setattr" and len(c.args) == 3 and dotted(c.args[0]) == "self":
                k = _ev(c.args[1], env, attrs, repo, ci)
                if isinstance(k, str):
                    attrs[k] = _ev(c.args[2], env, attrs, repo, ci)
                else:
                    for a_ in list(attrs):
                        attrs[a_] = UNKNOWN
        elif isinstance(s, ast.If):
            t = _ev(s.test, env, attrs, repo, ci)
            if t is UNKNOWN:
                e1, a1 = dict(env), dict(attrs)
                e2, a2 = dict(env), dict(attrs)
                _block(s.body, e1, a1, repo, ci, owner, depth)
                _block(s.orelse, e2, a2, repo, ci, owner, depth)
                ends1 = s.body and isinstance(s.body[-1], (ast.Raise, ast.Return))
                ends2 = s.orelse and isinstance(s.orelse[-1], (ast.Raise, ast.Return))
                if ends1 and not ends2:
                    env.clear(); env.update(e2); attrs.clear(); attrs.update(a2)
                elif ends2 and not ends1:
                    env.clear(); env.update(e1); attrs.clear(); attrs.update(a1)
                else:
                    m_e, m_a = _merge(e1, e2), _merge(a1, a2)
                    env.clear(); env.update(m_e); attrs.clear(); attrs.update(m_a)
            else:
                _block(s.body if t else s.orelse, env, attrs, repo, ci, owner, depth)
        elif isinstance(s, (ast.For, ast.While, ast.With, ast.Try)):
            for x in ast.walk(s):
                if isinstance(x, ast.Attribute) and isinstance(x.ctx, ast.Store) and dotted(x.value) == "self":
                    attrs[x.attr] = UNKNOWN
                elif isinstance(x, ast.Name) and isinstance(x.ctx, ast.Store):
                    env[x.id] = UNKNOWN
        elif isinstance(s, (ast.Return, ast.Raise)):
            return


def attrs_after_init(repo, ci, call=None, _owner=None, _depth=0):
    """{attr: constant or UNKNOWN} after `ci(*args, **kwargs)`; `call` = (positional values, keyword values) already evaluated, or
    None for all-unknown arguments.  `_owner` is the class whose __init__ is being interpreted on behalf of `ci` (super chain)."""
    mro = repo.mro(ci)
    owner = _owner
    if owner is None:
        owner = next((k for k in mro if "__init__" in k.methods), None)
    if owner is None or "__init__" not in owner.methods:
        return {}
    fn = owner.methods["__init__"]
    env = _bind(fn, call[0] if call else [], call[1] if call else {}, {}, {}, repo, ci)
    attrs = {}
    _block(fn.node.body, env, attrs, repo, ci, owner, _depth)
    return attrs

"""Clamp / bound-by-construction analysis and noise taint over expanded expressions."""
import ast

from .core import dotted, call_name, src
from .flow import leaves

MIN_NAMES = {"min", "minimum", "fmin", "amin"}
MAX_NAMES = {"max", "maximum", "fmax", "amax"}
NOISE_ROOTS = ("np.random", "numpy.random", "random")
IGNORED_LEAVES = {"np", "numpy", "math"}


def sig(e):
    """influence signature of an operand: the set of its leaf roots (calls contribute their arguments)."""
    return frozenset(x for x in leaves(e, calls=False) if x not in IGNORED_LEAVES)


def _args(c):
    if len(c.args) == 1 and isinstance(c.args[0], (ast.List, ast.Tuple)):
        return list(c.args[0].elts)
    return list(c.args)


def is_zero(e):
    return isinstance(e, ast.Constant) and isinstance(e.value, (int, float)) and e.value == 0


def is_noise_call(e):
    if isinstance(e, ast.Call):
        d = dotted(e.func) or ""
        return any(d.startswith(r + ".") for r in NOISE_ROOTS)
    return False


def upper_bounds(e):
    """set of signatures S such that value(e) <= (an expression with influence S) by the shape of e.
    Assumes physical quantities are non-negative where `max(x, 0)` is involved."""
    if isinstance(e, ast.Call):
        nm = call_name(e)
        if nm == "__phi__":
            sets = [upper_bounds(a) for a in e.args]
            out = set(sets[0])
            for s in sets[1:]:
                out &= s
            return out
        if nm in MIN_NAMES and e.args:
            out = set()
            for a in _args(e):
                out |= upper_bounds(a)
            return out
        if nm in MAX_NAMES and e.args:
            ops = _args(e)
            nonconst = [a for a in ops if not is_zero(a)]
            if len(nonconst) == 1 and len(ops) >= 2:
                return upper_bounds(nonconst[0])       # max(x, 0) <= max(U, 0) = U for U >= 0
            return {sig(e)}
        if nm in ("float", "int", "abs") and e.args:
            return upper_bounds(e.args[0]) if nm != "abs" else {sig(e)}
    if isinstance(e, ast.BinOp) and isinstance(e.op, ast.Sub):
        r = e.right
        if isinstance(r, ast.Call) and call_name(r) == "abs":
            return upper_bounds(e.left)               # x - |t| <= x
    if isinstance(e, ast.BinOp) and isinstance(e.op, ast.Add):
        if contains_noise(e):
            return set()                               # additive noise: no bound survives
    return {sig(e)}


def contains_noise(e):
    return any(is_noise_call(c) for c in ast.walk(e))


def taint(e):
    """(may be lowered by noise, may be raised by noise) for an expanded expression."""
    if isinstance(e, ast.Constant):
        return (False, False)
    if isinstance(e, ast.Call):
        nm = call_name(e)
        if is_noise_call(e):
            return (True, True)
        if nm == "__phi__":
            ts = [taint(a) for a in e.args]
            return (any(t[0] for t in ts), any(t[1] for t in ts))
        if nm in ("__loop__", "__unk__"):
            return (False, False)
        if nm == "abs" and e.args:
            t = taint(e.args[0])
            return (False, t[0] or t[1])
        if nm in MAX_NAMES and e.args:
            ts = [taint(a) for a in _args(e)]
            return (all(t[0] for t in ts), any(t[1] for t in ts))
        if nm in MIN_NAMES and e.args:
            ts = [taint(a) for a in _args(e)]
            return (any(t[0] for t in ts), all(t[1] for t in ts))
        ts = [taint(a) for a in e.args] + [taint(k.value) for k in e.keywords]
        if isinstance(e.func, ast.Attribute):
            ts.append(taint(e.func.value))
        return (any(t[0] for t in ts), any(t[1] for t in ts))
    if isinstance(e, ast.BinOp):
        a, b = taint(e.left), taint(e.right)
        if isinstance(e.op, ast.Add):
            return (a[0] or b[0], a[1] or b[1])
        if isinstance(e.op, ast.Sub):
            return (a[0] or b[1], a[1] or b[0])
        if isinstance(e.op, (ast.Mult, ast.Div)):
            # scaling by clean, positive physical quantities keeps the direction; a tainted divisor flips
            if not (b[0] or b[1]):
                neg = isinstance(e.right, ast.UnaryOp) and isinstance(e.right.op, ast.USub) or \
                    (isinstance(e.right, ast.Constant) and isinstance(e.right.value, (int, float)) and e.right.value < 0)
                return (a[1], a[0]) if neg else a
            if not (a[0] or a[1]):
                if isinstance(e.op, ast.Div):
                    return (b[1], b[0])
                return b
            return (True, True)
        anyt = a[0] or a[1] or b[0] or b[1]
        return (anyt, anyt)
    if isinstance(e, ast.UnaryOp):
        t = taint(e.operand)
        return (t[1], t[0]) if isinstance(e.op, ast.USub) else t
    if isinstance(e, ast.IfExp):
        a, b = taint(e.body), taint(e.orelse)
        return (a[0] or b[0], a[1] or b[1])
    if isinstance(e, (ast.Name, ast.Attribute)):
        return (False, False)
    ts = [taint(c) for c in ast.iter_child_nodes(e) if isinstance(c, ast.expr)]
    return (any(t[0] for t in ts), any(t[1] for t in ts))

"""None-discipline: every use of a (frozen) Optional producer is guarded on every path.

A *producer* is an expression that may evaluate to None (an Optional attribute
path or a call such as ``q.get_last_timestamp()``).  A *use* is a dereference,
subscript, arithmetic/ordering operand, or a binding to a parameter that the
rule names as non-Optional.  A use at node U is guarded iff there is **no path**
from the function entry (or from just after a *killer* of the guard fact) to U
that avoids every branch edge on which the producer is known to be non-None.
Guards inside expressions (``and``/``or``/``IfExp``/comprehension ``if``) are
handled by walking the expression with the facts collected so far.
Local names assigned from a producer become producers themselves (path from the
assignment to the use)."""
import ast
import re

from .core import dotted, call_name, src, walk_local
from .flow import edge_facts

ORDER_OPS = (ast.Lt, ast.LtE, ast.Gt, ast.GtE)


def key_of(e, syn=None):
    s = " ".join(ast.unparse(e).split())
    if syn:
        for pat, rep in syn:
            s = re.sub(pat, rep, s)
    return s


class Spec:
    """attrs: Optional attribute names (terminal attribute of an access path)
    calls: Optional-returning method names
    empties: {method name of emptiness test: producer call name} e.g. {'empty': 'get_last_timestamp'}
    killers: call names that invalidate a non-None fact for a call producer on the same receiver
    attr_killers: call names that invalidate facts about Optional attributes (e.g. unplug/plugin for .ev)
    syn: [(regex, replacement)] canonicalisation of access paths
    sinks: {callee name: set of positional indexes / kw names that must not receive None}
    """

    def __init__(self, attrs=(), calls=(), empties=None, killers=(), attr_killers=(), syn=None, sinks=None, names=()):
        self.attrs, self.calls = set(attrs), set(calls)
        self.empties = dict(empties or {})
        self.killers, self.attr_killers = set(killers), set(attr_killers)
        self.syn = list(syn or [])
        self.sinks = dict(sinks or {})
        self.names = set(names)

    def producer_key(self, e):
        if isinstance(e, ast.Attribute) and e.attr in self.attrs:
            return key_of(e, self.syn)
        if isinstance(e, ast.Call) and call_name(e) in self.calls and isinstance(e.func, ast.Attribute):
            return key_of(e, self.syn)
        if isinstance(e, ast.Name) and e.id in self.names:
            return e.id
        return None


def guard_keys(spec, test, truth):
    """set of producer keys known non-None on the given edge of `test`;"""
    out = set()
    for atom, t in edge_facts(test, truth):
        out |= atom_nonnull(spec, atom, t)
    return out


def atom_nonnull(spec, atom, t):
    out = set()
    if isinstance(atom, ast.Compare) and len(atom.ops) == 1 and isinstance(atom.comparators[0], ast.Constant) \
            and atom.comparators[0].value is None:
        k = spec.producer_key(atom.left)
        if k is not None:
            isnone = isinstance(atom.ops[0], (ast.Is, ast.Eq))
            notnone = isinstance(atom.ops[0], (ast.IsNot, ast.NotEq))
            if (isnone and not t) or (notnone and t):
                out.add(k)
    elif isinstance(atom, ast.Call) and isinstance(atom.func, ast.Attribute) and atom.func.attr in spec.empties and not atom.args:
        if not t:
            recv = key_of(atom.func.value, spec.syn)
            out.add(f"{recv}.{spec.empties[atom.func.attr]}()")
    else:
        k = spec.producer_key(atom)
        if k is not None and t and not isinstance(atom, ast.Call):
            out.add(k)   # truthiness of an Optional object
    return out


def _uses_in_expr(spec, e, known, out, parent=None, field=None):
    """collect (use_ast, key, guarded_locally) walking e with short-circuit facts `known`."""
    if isinstance(e, ast.BoolOp):
        k = set(known)
        for v in e.values:
            _uses_in_expr(spec, v, k, out, e)
            if isinstance(e.op, ast.And):
                k = k | guard_keys(spec, v, True)
            else:
                k = k | guard_keys(spec, v, False)
        return
    if isinstance(e, ast.IfExp):
        _uses_in_expr(spec, e.test, known, out, e)
        _uses_in_expr(spec, e.body, known | guard_keys(spec, e.test, True), out, e)
        _uses_in_expr(spec, e.orelse, known | guard_keys(spec, e.test, False), out, e)
        return
    if isinstance(e, (ast.ListComp, ast.SetComp, ast.GeneratorExp, ast.DictComp)):
        k = set(known)
        for g in e.generators:
            _uses_in_expr(spec, g.iter, k, out, e)
            for c in g.ifs:
                _uses_in_expr(spec, c, k, out, e)
                k = k | guard_keys(spec, c, True)
        if isinstance(e, ast.DictComp):
            _uses_in_expr(spec, e.key, k, out, e)
            _uses_in_expr(spec, e.value, k, out, e)
        else:
            _uses_in_expr(spec, e.elt, k, out, e)
        return
    if isinstance(e, ast.Lambda):
        _uses_in_expr(spec, e.body, known, out, e)
        return
    # is this node a *use* of a producer child?
    def prod(child):
        return spec.producer_key(child) if isinstance(child, ast.AST) else None

    if isinstance(e, ast.Attribute):
        k = prod(e.value)
        if k is not None:
            out.append((e, k, k in known))
    elif isinstance(e, ast.Subscript):
        k = prod(e.value)
        if k is not None:
            out.append((e, k, k in known))
    elif isinstance(e, ast.BinOp):
        for c in (e.left, e.right):
            k = prod(c)
            if k is not None:
                out.append((e, k, k in known))
    elif isinstance(e, ast.UnaryOp) and isinstance(e.op, (ast.USub, ast.UAdd)):
        k = prod(e.operand)
        if k is not None:
            out.append((e, k, k in known))
    elif isinstance(e, ast.Compare):
        if any(isinstance(o, ORDER_OPS) for o in e.ops):
            for c in [e.left] + e.comparators:
                k = prod(c)
                if k is not None:
                    out.append((e, k, k in known))
    elif isinstance(e, ast.Call):
        cn = call_name(e)
        if cn in spec.sinks:
            want = spec.sinks[cn]
            for i, a in enumerate(e.args):
                k = prod(a)
                if k is not None and (i in want or "*" in want):
                    out.append((e, k, k in known))
            for kw in e.keywords:
                k = prod(kw.value)
                if k is not None and (kw.arg in want or "*" in want):
                    out.append((e, k, k in known))
    for c in ast.iter_child_nodes(e):
        if isinstance(c, (ast.expr, ast.keyword, ast.comprehension)) or (hasattr(ast, "Slice") and isinstance(c, ast.Slice)):
            if isinstance(c, ast.keyword):
                _uses_in_expr(spec, c.value, known, out, e)
            elif isinstance(c, ast.comprehension):
                pass
            else:
                _uses_in_expr(spec, c, known, out, e)


def analyse(fl, spec):
    """-> list of dict(node, use, key, guarded) for every use of a producer in the function."""
    cfg = fl.cfg
    # local names assigned from a producer become producers (named flow)
    named = {}   # name -> [def nodes whose value is a producer]
    for n in cfg.nodes:
        if n.kind == "stmt" and isinstance(n.stmt, (ast.Assign, ast.AnnAssign)):
            v = n.stmt.value
            tg = n.stmt.targets if isinstance(n.stmt, ast.Assign) else [n.stmt.target]
            if v is not None and len(tg) == 1 and isinstance(tg[0], ast.Name) and spec.producer_key(v) is not None \
                    and not isinstance(v, ast.Name):
                named.setdefault(tg[0].id, []).append(n)
    spec2 = Spec(spec.attrs, spec.calls, spec.empties, spec.killers, spec.attr_killers, spec.syn, spec.sinks,
                 names=set(named) | spec.names)

    # guard edges per key
    guards = {}
    for n in cfg.nodes:
        if n.kind == "edge" and n.test.kind == "test":
            for k in guard_keys(spec2, n.test.expr, n.label):
                guards.setdefault(k, set()).add(n)

    # killers per key
    def killers_for(key):
        ks = set()
        for n in cfg.nodes:
            for e in cfg.node_exprs(n):
                for c in [e] + list(walk_local(e)):
                    if isinstance(c, ast.Call) and isinstance(c.func, ast.Attribute):
                        recv = key_of(c.func.value, spec2.syn)
                        if key.endswith("()") and c.func.attr in spec2.killers and key.startswith(recv + "."):
                            ks.add(n)
                        if not key.endswith("()") and c.func.attr in spec2.attr_killers:
                            # plugin/unplug on the object whose Optional attribute is tracked
                            base = key.rsplit(".", 1)[0]
                            if recv == base or recv in ("self", "super()"):
                                ks.add(n)
            if n.kind == "stmt":
                from .rules import store_targets
                for kind, p, t in store_targets(n.stmt):
                    pk = key_of(t, spec2.syn) if not isinstance(t, ast.Subscript) else None
                    if pk is not None and (pk == key or key.startswith(pk + ".")):
                        ks.add(n)
        return ks

    results = []
    for n in cfg.nodes:
        if not cfg.live(n):
            continue
        for e in cfg.node_exprs(n):
            uses = []
            if isinstance(e, ast.stmt):
                for sub in ast.iter_child_nodes(e):
                    if isinstance(sub, ast.expr):
                        _uses_in_expr(spec2, sub, set(), uses)
            else:
                _uses_in_expr(spec2, e, set(), uses)
            for use, key, local in uses:
                if local:
                    results.append(dict(node=n, use=use, key=key, guarded=True, how="guard inside the expression"))
                    continue
                g = guards.get(key, set())
                if key in named:
                    # an assignment that itself sits on the not-None edge of its source copies a value known not to be None
                    starts = []
                    for s_ in named[key]:
                        sk = spec2.producer_key(s_.stmt.value)
                        gs = guards.get(sk, set()) if sk is not None else set()
                        if gs and s_ not in cfg.reach(cfg.entry, avoid=gs):
                            continue
                        starts.append(s_)
                    other_defs = {d for d in cfg.nodes if key in fl._defs.get(d, {}) and d not in named[key]}
                    bad = False
                    for s in starts:
                        if n in cfg.reach_from_succ(s, avoid=g | other_defs | (set(starts) - {s})):
                            bad = True
                    results.append(dict(node=n, use=use, key=key, guarded=not bad,
                                        how="every path from the assignment passes a not-None edge" if not bad else "path from the Optional assignment reaches the use unguarded"))
                    continue
                if n in cfg.reach(cfg.entry, avoid=g):
                    results.append(dict(node=n, use=use, key=key, guarded=False, how="no dominating not-None guard on some path"))
                    continue
                ks = killers_for(key)
                killed = False
                for k in ks:
                    if k is n:
                        continue
                    if n in cfg.reach_from_succ(k, avoid=g):
                        killed = True
                        results.append(dict(node=n, use=use, key=key, guarded=False,
                                            how=f"the guard fact is invalidated by `{src(k.stmt if k.stmt is not None else k.expr, 60)}` before the use"))
                        break
                if not killed:
                    results.append(dict(node=n, use=use, key=key, guarded=True, how="dominated by a not-None edge, no intervening kill"))
    return results


# frozen specs ---------------------------------------------------------------

QUEUE = Spec(calls={"get_last_timestamp"}, empties={"empty": "get_last_timestamp"},
             killers={"get_current_events", "get_event", "heappop"})

EVSE_EV = Spec(attrs={"ev", "_ev"}, attr_killers={"unplug", "plugin"},
               syn=[(r"\bself\.ev\b", "self._ev")])


def check_queue_timestamp(ck, rid, finfo, fl=None):
    """every arithmetic use of <queue>.get_last_timestamp() in the function is guarded."""
    from .rules import flow_of
    fl = fl or flow_of(finfo)
    n = 0
    for r in analyse(fl, QUEUE):
        n += 1
        ck.require(r["guarded"], rid, finfo, r["use"], ok=r["how"],
                   bad=f"`{r['key']}` may be None here (empty queue): {r['how']}", sink=f"{r['key']}:{_use_kind(r['use'])}")
    return n


def check_optional_attr(ck, rid, finfo, fl=None, attr="ev", deref_only=True, spec=None):
    from .rules import flow_of
    fl = fl or flow_of(finfo)
    spec = spec or EVSE_EV
    n = 0
    for r in analyse(fl, spec):
        n += 1
        ck.require(r["guarded"], rid, finfo, r["use"], ok=r["how"],
                   bad=f"`{r['key']}` may be None here: {r['how']}", sink=f"{r['key']}:{_use_kind(r['use'])}")
    return n


def _use_kind(u):
    if isinstance(u, ast.Attribute):
        return "." + u.attr
    if isinstance(u, ast.BinOp):
        return type(u.op).__name__
    if isinstance(u, ast.Call):
        return (call_name(u) or "call") + "()"
    return type(u).__name__

"""Loader, program index and reporting for the static checks.

Nothing from /repo is imported or executed: sources are parsed with ``ast``.
An in-memory *overlay* {relative path: source text} replaces files on disk,
which is how the self-validation analyses mutated sources.
"""
import ast
import json
import os
import time

REPO_ROOT = os.environ.get("VERIF_REPO", "/repo")
PKG = "acnportal"
FILE_FLOOR = 36  # 41 on the pinned tree; fewer than this means the loader lost the package


class AnalysisError(Exception):
    """An anchor vanished or a construct is outside the analysable subset."""


# ----------------------------------------------------------------------------
# small AST helpers
# ----------------------------------------------------------------------------

def dotted(n):
    """'self.network.station_ids' for Name/Attribute chains, else None."""
    if isinstance(n, ast.Name):
        return n.id
    if isinstance(n, ast.Attribute):
        b = dotted(n.value)
        return f"{b}.{n.attr}" if b else None
    return None


def last_name(n):
    if isinstance(n, ast.Attribute):
        return n.attr
    if isinstance(n, ast.Name):
        return n.id
    return None


def call_name(c):
    """terminal name of the callee of a Call ('heappush' for heapq.heappush(...))."""
    if isinstance(c, ast.Call):
        return last_name(c.func)
    return None


def src(n, limit=110):
    try:
        s = ast.unparse(n)
    except Exception:  # pragma: no cover
        s = repr(n)
    s = " ".join(s.split())
    return s if len(s) <= limit else s[: limit - 3] + "..."


def walk_local(node, into_lambda=True):
    """ast.walk that does not descend into nested function / class definitions
    (the root itself may be one)."""
    todo = list(ast.iter_child_nodes(node))
    while todo:
        n = todo.pop()
        yield n
        if isinstance(n, (ast.FunctionDef, ast.AsyncFunctionDef, ast.ClassDef)):
            continue
        if isinstance(n, ast.Lambda) and not into_lambda:
            continue
        todo.extend(ast.iter_child_nodes(n))


def const_value(n):
    """Fold literal expressions; raises ValueError if not a closed literal term."""
    if isinstance(n, ast.Constant):
        return n.value
    if isinstance(n, ast.UnaryOp) and isinstance(n.op, (ast.USub, ast.UAdd, ast.Not)):
        v = const_value(n.operand)
        return -v if isinstance(n.op, ast.USub) else (+v if isinstance(n.op, ast.UAdd) else (not v))
    if isinstance(n, (ast.List, ast.Tuple)):
        vals = [const_value(e) for e in n.elts]
        return vals if isinstance(n, ast.List) else tuple(vals)
    if isinstance(n, ast.Set):
        return set(const_value(e) for e in n.elts)
    if isinstance(n, ast.Dict):
        return {const_value(k): const_value(v) for k, v in zip(n.keys, n.values)}
    if isinstance(n, ast.BinOp):
        l, r = const_value(n.left), const_value(n.right)
        ops = {ast.Add: lambda a, b: a + b, ast.Sub: lambda a, b: a - b, ast.Mult: lambda a, b: a * b,
               ast.Div: lambda a, b: a / b, ast.FloorDiv: lambda a, b: a // b, ast.Mod: lambda a, b: a % b,
               ast.Pow: lambda a, b: a ** b}
        f = ops.get(type(n.op))
        if f is None:
            raise ValueError("op")
        return f(l, r)
    if isinstance(n, ast.Call) and isinstance(n.func, ast.Name) and n.func.id == "float" and len(n.args) == 1:
        return float(const_value(n.args[0]))
    if isinstance(n, ast.Call) and isinstance(n.func, ast.Name) and n.func.id in ("frozenset", "set", "tuple", "list") and len(n.args) <= 1 and not n.keywords:
        inner = const_value(n.args[0]) if n.args else ()
        if isinstance(inner, (dict, str)):
            raise ValueError("container of a mapping / text")
        return {"frozenset": frozenset, "set": set, "tuple": tuple, "list": list}[n.func.id](inner)
    if isinstance(n, ast.Call) and isinstance(n.func, ast.Attribute) and n.func.attr == "format":
        base = const_value(n.func.value)
        return base.format(*[const_value(a) for a in n.args])
    if isinstance(n, ast.JoinedStr):
        out = ""
        for v in n.values:
            if isinstance(v, ast.Constant):
                out += v.value
            else:
                raise ValueError("fstring")
        return out
    raise ValueError(type(n).__name__)


def is_const(n):
    try:
        const_value(n)
        return True
    except (ValueError, TypeError, ZeroDivisionError):
        return False


# ----------------------------------------------------------------------------
# program index
# ----------------------------------------------------------------------------

class FuncInfo:
    def __init__(self, node, qual, module, cls=None, parent=None):
        self.node, self.qual, self.module, self.cls, self.parent = node, qual, module, cls, parent
        self.name = node.name

    @property
    def site(self):
        return f"{self.module}::{self.qual}"

    @property
    def params(self):
        a = self.node.args
        return [x.arg for x in a.posonlyargs + a.args] + [x.arg for x in a.kwonlyargs]

    def defaults(self):
        """{param: default expr}"""
        a = self.node.args
        pos = a.posonlyargs + a.args
        out = {}
        for p, d in zip(pos[len(pos) - len(a.defaults):], a.defaults):
            out[p.arg] = d
        for p, d in zip(a.kwonlyargs, a.kw_defaults):
            if d is not None:
                out[p.arg] = d
        return out

    def decorators(self):
        return [last_name(d) if not isinstance(d, ast.Call) else call_name(d) for d in self.node.decorator_list]

    def is_property(self):
        return "property" in self.decorators()

    def __repr__(self):
        return f"<fn {self.site}>"


class ClassInfo:
    def __init__(self, node, module):
        self.node, self.module, self.name = node, module, node.name
        self.bases = [last_name(b) for b in node.bases if last_name(b)]
        self.methods = {}      # name -> FuncInfo (last definition wins, except property setters are kept apart)
        self.setters = {}
        self.assigns = {}      # class-level NAME = expr

    @property
    def site(self):
        return f"{self.module}::{self.name}"

    def __repr__(self):
        return f"<class {self.site}>"


class Repo:
    def __init__(self, root=None, overlay=None):
        self.root = root or REPO_ROOT
        self.overlay = dict(overlay or {})
        self.sources, self.trees, self.json_files = {}, {}, {}
        self.classes, self.funcs = {}, {}
        self._load()
        self._index()
        self.inlined_helpers = set()
        self.residual = {}       # qualified name of a known function -> new helpers it still calls after inlining
        self.specialised = []
        self.properties_inlined = self._inline_new_properties()
        self._integer_attributes()
        self.keyword_calls_normalised = self._positional_calls()
        if os.environ.get("VERIF_NO_INLINE") != "1":
            self._specialise_dispatch()
            self._inline_new_helpers()

    # -- loading
    def _load(self):
        base = os.path.join(self.root, PKG)
        if not os.path.isdir(base):
            raise AnalysisError(f"package directory {base} not found")
        for dp, dn, fn in os.walk(base):
            dn[:] = sorted(d for d in dn if d not in ("tests", "__pycache__"))
            for f in sorted(fn):
                p = os.path.join(dp, f)
                rel = os.path.relpath(p, self.root)
                if f.endswith(".py"):
                    self.sources[rel] = None
                elif f.endswith(".json") and "tariff_schedules" in rel:
                    self.json_files[rel] = None
        for rel in list(self.overlay):
            if rel.endswith(".py") and "/tests/" not in rel:
                self.sources.setdefault(rel, None)
            elif rel.endswith(".json"):
                self.json_files.setdefault(rel, None)
        for rel in self.sources:
            text = self.overlay.get(rel)
            if text is None:
                with open(os.path.join(self.root, rel), encoding="utf-8") as fh:
                    text = fh.read()
            self.sources[rel] = text
            try:
                self.trees[rel] = ast.parse(text, filename=rel)
            except SyntaxError as e:
                raise AnalysisError(f"{rel} does not parse: {e}")
        self.logging_dropped = 0
        for rel in self.trees:
            self.trees[rel], k_ = _drop_logging(self.trees[rel])
            self.logging_dropped += k_
        self.walrus_hoisted = 0
        for rel in self.trees:
            self.trees[rel], k_ = _hoist_walrus(self.trees[rel])
            self.walrus_hoisted += k_
        self.named_constants = _inline_named_constants(self.trees)
        for rel in self.trees:
            self.trees[rel] = _split_tuple_assignments(self.trees[rel])
        for rel in self.json_files:
            text = self.overlay.get(rel)
            if text is None:
                with open(os.path.join(self.root, rel), encoding="utf-8") as fh:
                    text = fh.read()
            try:
                self.json_files[rel] = json.loads(text)
            except ValueError as e:
                raise AnalysisError(f"{rel} is not valid JSON: {e}")
        if len(self.sources) < FILE_FLOOR:
            raise AnalysisError(f"only {len(self.sources)} source files found under {base} (floor {FILE_FLOOR})")

    # -- indexing
    def _index(self):
        for rel, tree in self.trees.items():
            self._index_body(tree.body, rel, prefix="", cls=None, parent=None)

    def _index_body(self, body, rel, prefix, cls, parent):
        for n in body:
            if isinstance(n, ast.ClassDef):
                ci = ClassInfo(n, rel)
                self.classes.setdefault(n.name, []).append(ci)
                for s in n.body:
                    if isinstance(s, ast.Assign):
                        for t in s.targets:
                            if isinstance(t, ast.Name):
                                ci.assigns[t.id] = s.value
                self._index_body(n.body, rel, prefix + n.name + ".", ci, None)
            elif isinstance(n, (ast.FunctionDef, ast.AsyncFunctionDef)):
                fi = FuncInfo(n, prefix + n.name, rel, cls=cls, parent=parent)
                self.funcs.setdefault(fi.qual, []).append(fi)
                if cls is not None and parent is None:
                    decs = [ast.unparse(d) for d in n.decorator_list]
                    if any(d.endswith(".setter") for d in decs):
                        cls.setters[n.name] = fi
                    else:
                        cls.methods[n.name] = fi
                self._index_nested(n, rel, prefix + n.name + ".", cls, fi)
            elif isinstance(n, (ast.If, ast.Try)):
                # module-level conditional definitions (base.py)
                for blk in ([n.body, n.orelse] if isinstance(n, ast.If) else [n.body, n.orelse, n.finalbody] + [h.body for h in n.handlers]):
                    self._index_body(blk, rel, prefix, cls, parent)

    def _index_nested(self, fn, rel, prefix, cls, parent):
        for n in walk_local(fn):
            if isinstance(n, (ast.FunctionDef, ast.AsyncFunctionDef)):
                fi = FuncInfo(n, prefix + n.name, rel, cls=cls, parent=parent)
                self.funcs.setdefault(fi.qual, []).append(fi)
                self._index_nested(n, rel, prefix + n.name + ".", cls, fi)

    def _integer_attributes(self):
        """attribute names whose every store in the package is an integer literal, `+= <integer literal>`, a len() or a value read back
        from a serialisation dictionary: they hold integers only (flow.INT_ATTRS; int(x.attr) is x.attr)"""
        from . import flow as _flow
        ok, bad = set(), set()
        for tree in self.trees.values():
            for x in ast.walk(tree):
                if isinstance(x, ast.Assign):
                    for t in x.targets:
                        if isinstance(t, ast.Attribute):
                            v = x.value
                            good = (isinstance(v, ast.Constant) and isinstance(v.value, int) and not isinstance(v.value, bool)) \
                                or (isinstance(v, ast.Call) and isinstance(v.func, ast.Name) and v.func.id in ("len", "int")) \
                                or (isinstance(v, ast.Subscript) and isinstance(v.value, ast.Name) and v.value.id in ("attribute_dict", "in_dict"))
                            (ok if good else bad).add(t.attr)
                        elif isinstance(t, (ast.Tuple, ast.List)):
                            for y in ast.walk(t):
                                if isinstance(y, ast.Attribute) and isinstance(y.ctx, ast.Store):
                                    bad.add(y.attr)
                elif isinstance(x, ast.AugAssign) and isinstance(x.target, ast.Attribute):
                    good = isinstance(x.op, (ast.Add, ast.Sub)) and isinstance(x.value, ast.Constant) and isinstance(x.value.value, int) and not isinstance(x.value.value, bool)
                    (ok if good else bad).add(x.target.attr)
                elif isinstance(x, (ast.AnnAssign,)) and isinstance(x.target, ast.Attribute) and x.value is not None:
                    bad.add(x.target.attr)
                elif isinstance(x, ast.Call) and isinstance(x.func, ast.Name) and x.func.id == "setattr" and len(x.args) == 3:
                    if isinstance(x.args[1], ast.Constant) and isinstance(x.args[1].value, str):
                        bad.add(x.args[1].value)
        ints = ok - bad
        # a read-only property that returns such an attribute holds integers as well
        for lst in self.funcs.values():
            for fi in lst:
                if fi.cls is not None and fi.is_property():
                    body = [b for b in fi.node.body if not (isinstance(b, ast.Expr) and isinstance(b.value, ast.Constant))]
                    if len(body) == 1 and isinstance(body[0], ast.Return) and isinstance(body[0].value, ast.Attribute) and body[0].value.attr in ints:
                        ints = ints | {fi.name}
        _flow.INT_ATTRS = set(ints)
        self.integer_attributes = sorted(ints)

    def _inline_new_properties(self):
        """A read-only property that did not exist on the pinned tree and whose body is a single `return <expression over self>` is a
        named expression (`evse.occupied` for `evse._ev is not None`): its reads are replaced by that expression, as calls of new helper
        functions are.  Only when the name is unique in the package (no other class defines it, nothing stores an attribute of that name)."""
        import copy as _c
        from .inline import load_known
        known = load_known()
        if known is None:
            return 0
        stored, defined = set(), {}
        for tree in self.trees.values():
            for x in ast.walk(tree):
                if isinstance(x, ast.Attribute) and isinstance(x.ctx, (ast.Store, ast.Del)):
                    stored.add(x.attr)
        for lst in self.classes.values():
            for ci in lst:
                for nm in list(ci.methods) + list(ci.setters) + list(ci.assigns):
                    defined.setdefault(nm, []).append(ci)
        table = {}
        for q, lst in self.funcs.items():
            for fi in lst:
                if fi.cls is None or fi.parent is not None or not fi.is_property() or fi.qual in known or fi.name in stored or len(defined.get(fi.name, [])) != 1 \
                        or fi.name in fi.cls.setters:
                    continue
                body = list(fi.node.body)
                if body and isinstance(body[0], ast.Expr) and isinstance(body[0].value, ast.Constant) and isinstance(body[0].value.value, str):
                    body = body[1:]
                if len(body) != 1 or not isinstance(body[0], ast.Return) or body[0].value is None or len(fi.params) != 1:
                    continue
                e = body[0].value
                if any(isinstance(x, (ast.Lambda, ast.Yield, ast.YieldFrom, ast.Await, ast.NamedExpr)) for x in ast.walk(e)):
                    continue
                names = {x.id for x in ast.walk(e) if isinstance(x, ast.Name)}
                if not names <= {fi.params[0]} | set(dir(__import__("builtins"))) | {"np", "pd"}:
                    continue
                table[fi.name] = (fi, e, fi.params[0])
        if not table:
            return 0
        count = [0]

        def pure(r):
            return isinstance(r, ast.Name) or (isinstance(r, ast.Attribute) and pure(r.value)) or (isinstance(r, ast.Subscript) and pure(r.value) and
                                                                                                    isinstance(r.slice, (ast.Name, ast.Constant, ast.Attribute)))

        class P(ast.NodeTransformer):
            def __init__(self):
                self.inside = None

            def visit_FunctionDef(self, n):
                old, self.inside = self.inside, n
                try:
                    return self.generic_visit(n)
                finally:
                    self.inside = old

            def visit_Attribute(self, n):
                n = self.generic_visit(n)
                if isinstance(n.ctx, ast.Load) and n.attr in table:
                    fi, e, selfname = table[n.attr]
                    if self.inside is fi.node or not pure(n.value):
                        return n
                    recv = n.value

                    class S(ast.NodeTransformer):
                        def visit_Name(self, x):
                            return _c.deepcopy(recv) if x.id == selfname and isinstance(x.ctx, ast.Load) else x
                    count[0] += 1
                    return ast.fix_missing_locations(ast.copy_location(S().visit(_c.deepcopy(e)), n))
                return n
        for rel in self.trees:
            P().visit(self.trees[rel])
        return count[0]

    def _positional_calls(self):
        """Load-time normal form: `f(a, y=b)` and `f(a, b)` bind the same parameters - a call to a function / method / constructor of
        the package whose keywords all name positional parameters is rewritten into the positional form (a skipped parameter in
        between is filled with its literal default), so that rules reading `call.args[i]` and rules binding by name see one program.
        The callee is resolved by name: a module-level function or class of that name, or - for `x.m(..)` - every method `m` of the
        package, which must then agree on the parameter list.  Calls with *args / **kwargs, callees with *varargs and keywords that
        do not name a positional parameter are left as written.  Returns the number of calls rewritten."""
        import copy as _c
        by_name = {}
        for q, lst in self.funcs.items():
            for fi in lst:
                if fi.parent is None:
                    by_name.setdefault(fi.name, []).append(fi)

        def sig(fi, skip_first):
            a = fi.node.args
            if a.vararg is not None:
                return None
            pos = [x.arg for x in a.posonlyargs + a.args]
            dflt = dict(zip(pos[len(pos) - len(a.defaults):], a.defaults)) if a.defaults else {}
            if skip_first and pos:
                pos = pos[1:]
            return pos, dflt, a.kwarg is not None, {x.arg for x in a.kwonlyargs}

        def candidates(call):
            f = call.func
            if isinstance(f, ast.Name):
                cl = self.classes.get(f.id, [])
                if cl:
                    out = []
                    for ci in cl:
                        init = next((k.methods["__init__"] for k in self.mro(ci) if "__init__" in k.methods), None)
                        if init is None:
                            return None
                        out.append(sig(init, True))
                    return out
                fs = [fi for fi in by_name.get(f.id, []) if fi.cls is None]
                return [sig(fi, False) for fi in fs] or None
            if isinstance(f, ast.Attribute):
                fs = [fi for fi in by_name.get(f.attr, []) if fi.cls is not None] + [fi for fi in by_name.get(f.attr, []) if fi.cls is None]
                if not fs:
                    return None
                base_is_class = isinstance(f.value, ast.Name) and f.value.id in self.classes
                out = []
                for fi in fs:
                    if fi.cls is None:
                        out.append(sig(fi, False))
                        continue
                    decs = fi.decorators()
                    if "staticmethod" in decs:
                        out.append(sig(fi, False))
                    elif "classmethod" in decs:
                        out.append(sig(fi, True))
                    else:
                        out.append(sig(fi, not base_is_class))
                return out
            return None

        count = 0
        for rel, tree in self.trees.items():
            for call in [x for x in ast.walk(tree) if isinstance(x, ast.Call)]:
                if _external_canonical(call):
                    count += 1
                    continue
                if not call.keywords or any(k.arg is None for k in call.keywords) or any(isinstance(a, ast.Starred) for a in call.args):
                    continue
                cands = candidates(call)
                if not cands or any(c is None for c in cands):
                    continue
                first = cands[0]
                if any(c[0] != first[0] or c[2] != first[2] or c[3] != first[3]
                       or {k: ast.dump(v) for k, v in c[1].items()} != {k: ast.dump(v) for k, v in first[1].items()} for c in cands[1:]):
                    continue
                pos, dflt, has_kwarg, kwonly = first
                kws = {k.arg: k.value for k in call.keywords}
                if any(k not in pos for k in kws) or len(call.args) > len(pos) or any(p in kws for p in pos[:len(call.args)]):
                    continue
                new_args, left, ok = list(call.args), dict(kws), True
                for p in pos[len(call.args):]:
                    if not left:
                        break
                    if p in left:
                        new_args.append(left.pop(p))
                    elif p in dflt and is_const(dflt[p]):
                        new_args.append(ast.copy_location(_c.deepcopy(dflt[p]), call))
                    else:
                        ok = False
                        break
                if ok and not left:
                    call.args, call.keywords = new_args, []
                    ast.fix_missing_locations(call)
                    count += 1
        return count

    def _specialise_dispatch(self):
        """table-driven dispatch (constant tuples / dicts of handlers) is rewritten into the if/elif chain it stands for (sa/pe.py)"""
        from .pe import specialise_function
        for lst in list(self.funcs.values()):
            for fi in list(lst):
                node = specialise_function(self, fi)
                if node is not None:
                    try:            # unrolling a loop over a literal table creates the patterns of the load-time normal forms
                        mod_ = _split_tuple_assignments(ast.Module(body=[node], type_ignores=[]))
                        if len(mod_.body) == 1 and isinstance(mod_.body[0], ast.FunctionDef):
                            node = mod_.body[0]
                    except Exception:
                        pass
                    self._replace_node(fi, node)
                    self.specialised.append(fi.qual)

    def _replace_node(self, fi, node):
        for q in [q for q in self.funcs if q.startswith(fi.qual + ".")]:
            self.funcs[q] = [x for x in self.funcs[q] if x.parent is not fi and not _descends(x, fi)]
            if not self.funcs[q]:
                del self.funcs[q]
        fi.node = node
        self._index_nested(node, fi.module, fi.qual + ".", fi.cls, fi)

    def _inline_new_helpers(self):
        """calls from known functions to helpers that did not exist on the pinned tree are replaced by the helper's body
        (see sa/inline.py); the helpers themselves are then skipped by package-wide scans (their code is seen in the callers)."""
        from .inline import Inliner, load_known
        known = load_known()
        if known is None:
            return
        new = [f for lst in self.funcs.values() for f in lst if f.qual not in known]
        if not new:
            return
        inl = Inliner(self, known)
        for lst in list(self.funcs.values()):
            for fi in list(lst):
                if fi.qual not in known:
                    continue
                try:
                    node = inl.inline_function(fi)
                except RecursionError:
                    continue
                if node is not fi.node:
                    # the load-time normal forms once more: splicing a helper in can create their patterns (a parameter that was a
                    # literal table at the call, a temporary holding a test, ...)
                    try:
                        mod_ = _split_tuple_assignments(ast.Module(body=[node], type_ignores=[]))
                        if len(mod_.body) == 1 and isinstance(mod_.body[0], ast.FunctionDef):
                            node = mod_.body[0]
                    except Exception:
                        pass
                    # arguments that were literals at the call (helper(None), helper(True)) decide tests inside the spliced body
                    try:
                        from .pe import Specialiser, GiveUp
                        sp = Specialiser(self, fi)
                        body, _ = sp.block(list(node.body), {}, None)
                        if sp.changed:
                            import copy as _c
                            node = _c.copy(node)
                            node.body = body or [ast.Pass()]
                            node = _c.deepcopy(node)
                            ast.fix_missing_locations(node)
                    except Exception:
                        pass
                    # drop the nested functions indexed from the old node, re-index from the new one
                    for q in [q for q in self.funcs if q.startswith(fi.qual + ".")]:
                        self.funcs[q] = [x for x in self.funcs[q] if x.parent is not fi and not _descends(x, fi)]
                        if not self.funcs[q]:
                            del self.funcs[q]
                    fi.node = node
                    self._index_nested(node, fi.module, fi.qual + ".", fi.cls, fi)
        self.inlined_helpers = set(inl.used)
        # known functions that still call a new helper / instantiate a new class after inlining (generators, recursion, closures
        # returned as values, helper classes): their structure is not fully visible to the rules
        new_classes = {c.name for lst in self.classes.values() for c in lst
                       if c.methods and all(m.qual not in known for m in c.methods.values())}
        for lst in list(self.funcs.values()):
            for fi in list(lst):
                if fi.qual not in known:
                    continue
                left = set()
                local_fns = {x.name for x in ast.walk(fi.node) if isinstance(x, ast.FunctionDef) and x is not fi.node
                             and f"{fi.qual}.{x.name}" not in known}
                local_fns |= {t.id for x in ast.walk(fi.node) if isinstance(x, ast.Assign) and isinstance(x.value, ast.Lambda)
                              for t in x.targets if isinstance(t, ast.Name)}
                for n in walk_local(fi.node):
                    if isinstance(n, ast.Call):
                        r = inl.resolve(n, fi)
                        if r:
                            left.add(r[0].qual)
                        elif isinstance(n.func, ast.Name) and n.func.id in local_fns:
                            left.add(f"{fi.qual}.{n.func.id}")      # a local closure the inliner could not splice in
                        elif isinstance(n.func, ast.Name) and n.func.id in new_classes:
                            left.add(n.func.id)
                    elif isinstance(n, ast.Name) and isinstance(n.ctx, ast.Load):
                        # a new helper used as a *value* (stored in a variable / tuple / table and called through it): the call through
                        # the variable is not a call the inliner can splice
                        r = inl.resolve(ast.Call(func=n, args=[], keywords=[]), fi)
                        if r:
                            left.add(r[0].qual)
                    elif isinstance(n, ast.Attribute) and isinstance(n.ctx, ast.Load) and isinstance(n.value, ast.Name) and n.value.id in ("self", "cls"):
                        r = inl.resolve(ast.Call(func=n, args=[], keywords=[]), fi)
                        if r:
                            left.add(r[0].qual)
                if left:
                    self.residual[fi.qual] = sorted(left)

    # -- lookups (anchors are qualified names, never paths or lines)
    def fn(self, qual, module=None, optional=False):
        cands = self.funcs.get(qual, [])
        if module:
            cands = [c for c in cands if c.module.endswith(module)]
        if len(cands) == 1:
            return cands[0]
        if not cands:
            if optional:
                return None
            raise AnalysisError(f"anchor function {qual!r} not found" + (f" in {module}" if module else ""))
        raise AnalysisError(f"anchor function {qual!r} is ambiguous: {[c.site for c in cands]}")

    def cls(self, name, module=None, optional=False):
        cands = self.classes.get(name, [])
        if module:
            cands = [c for c in cands if c.module.endswith(module)]
        if len(cands) == 1:
            return cands[0]
        if not cands:
            if optional:
                return None
            raise AnalysisError(f"anchor class {name!r} not found")
        raise AnalysisError(f"anchor class {name!r} is ambiguous: {[c.site for c in cands]}")

    def mro(self, ci):
        """Linearisation restricted to classes defined in the package (single inheritance in practice)."""
        out, seen = [], set()

        def visit(c):
            if c.name in seen:
                return
            seen.add(c.name)
            out.append(c)
            for b in c.bases:
                cands = self.classes.get(b, [])
                if len(cands) == 1:
                    visit(cands[0])
                elif len(cands) > 1:
                    same = [x for x in cands if x.module == c.module]
                    visit(same[0] if same else cands[0])
        visit(ci)
        return out

    def method(self, ci, name, optional=False):
        for c in self.mro(ci):
            if name in c.methods:
                return c.methods[name]
        if optional:
            return None
        raise AnalysisError(f"method {ci.name}.{name} not found in the class hierarchy")

    def subclasses(self, name, strict=True):
        out = []
        for lst in self.classes.values():
            for c in lst:
                names = [x.name for x in self.mro(c)]
                if name in names and (not strict or c.name != name):
                    out.append(c)
        return out

    def all_functions(self):
        for lst in list(self.funcs.values()):
            for f in lst:
                if f.qual in self.inlined_helpers:
                    continue          # a new helper whose body was spliced into its callers
                yield f

    def is_callable_name(self, finfo, name):
        """`name` used in finfo denotes a def / class / imported object of finfo's module (never None), not a local or parameter"""
        locals_ = set(finfo.params) | {x.id for x in ast.walk(finfo.node) if isinstance(x, ast.Name) and isinstance(x.ctx, ast.Store)}
        if name in locals_:
            return False
        for n in self.trees[finfo.module].body:
            if isinstance(n, (ast.FunctionDef, ast.ClassDef)) and n.name == name:
                return True
            if isinstance(n, (ast.Import, ast.ImportFrom)) and any((a.asname or a.name.split(".")[0]) == name for a in n.names):
                return True
        return False

    def module_consts(self, rel):
        """{name: value expr} of simple module-level assignments NAME = <expr> in module `rel`"""
        out = {}
        for n in self.trees[rel].body:
            if isinstance(n, ast.Assign) and len(n.targets) == 1 and isinstance(n.targets[0], ast.Name):
                out[n.targets[0].id] = n.value
            elif isinstance(n, ast.AnnAssign) and isinstance(n.target, ast.Name) and n.value is not None:
                out[n.target.id] = n.value
        return out

    def fold(self, finfo, expr):
        """const_value of expr with names resolved through the module-level constants of finfo's module (ValueError if not closed)"""
        consts = self.module_consts(finfo.module)

        class T(ast.NodeTransformer):
            def visit_Name(self, n):
                if isinstance(n.ctx, ast.Load) and n.id in consts:
                    return consts[n.id]
                return n
        import copy as _c
        return const_value(T().visit(_c.deepcopy(expr)))

    def module_tree(self, suffix):
        c = [r for r in self.trees if r.endswith(suffix)]
        if len(c) != 1:
            raise AnalysisError(f"module {suffix!r}: {len(c)} candidates")
        return c[0], self.trees[c[0]]


# library calls the package uses: (parameter names in order, number of leading parameters written positionally in the canonical form).
# `np.append(arr=a, values=v)` and `np.append(a, v)` are one call; parameters beyond the canonical positional ones are keywords.
EXTERNAL_SIGNATURES = {
    "np.append": (["arr", "values", "axis"], 2), "np.delete": (["arr", "obj", "axis"], 2), "np.insert": (["arr", "obj", "values", "axis"], 3),
    "np.zeros": (["shape", "dtype"], 1), "np.ones": (["shape", "dtype"], 1), "np.full": (["shape", "fill_value", "dtype"], 2),
    "np.tile": (["A", "reps"], 2), "np.isclose": (["a", "b", "rtol", "atol", "equal_nan"], 2), "np.allclose": (["a", "b", "rtol", "atol", "equal_nan"], 2),
    "np.clip": (["a", "a_min", "a_max"], 3), "np.array": (["object", "dtype"], 1), "np.asarray": (["a", "dtype"], 1),
    "np.random.normal": (["loc", "scale", "size"], 2), "np.sum": (["a", "axis"], 1), "np.max": (["a", "axis"], 1), "np.min": (["a", "axis"], 1),
    "np.mean": (["a", "axis"], 1), "np.abs": (["x"], 1), "np.maximum": (["x1", "x2"], 2), "np.minimum": (["x1", "x2"], 2),
    "np.vstack": (["tup"], 1), "np.hstack": (["tup"], 1), "np.stack": (["arrays", "axis"], 1), "np.concatenate": (["arrays", "axis"], 1),
    "np.where": (["condition", "x", "y"], 3), "np.floor": (["x"], 1), "np.ceil": (["x"], 1), "np.exp": (["x"], 1), "np.log": (["x"], 1),
    "np.round": (["a", "decimals"], 2), "np.any": (["a", "axis"], 1), "np.all": (["a", "axis"], 1),
    "pd.DataFrame": (["data", "index", "columns", "dtype", "copy"], 1), "pd.concat": (["objs", "axis"], 1), "pd.Series": (["data", "index", "dtype", "name"], 1),
    "heapq.heappush": (["heap", "item"], 2), "heapq.heappop": (["heap"], 1), "heapq.heapify": (["x"], 1),
    "json.dump": (["obj", "fp"], 2), "json.dumps": (["obj"], 1), "json.load": (["fp"], 1), "json.loads": (["s"], 1),
    "copy.deepcopy": (["x", "memo"], 1), "deepcopy": (["x", "memo"], 1), "warnings.warn": (["message", "category", "stacklevel"], 2),
    "timedelta": ([], 0), "round": (["number", "ndigits"], 2), "isinstance": (["obj", "class_or_tuple"], 2),
    "getattr": (["object", "name", "default"], 3), "setattr": (["object", "name", "value"], 3), "enumerate": (["iterable", "start"], 1),
}
EXTERNAL_METHODS = {"fillna": (["value", "method", "axis"], 1), "astype": (["dtype"], 1), "reshape": (["shape"], 1),
                    "strftime": (["format"], 1), "astimezone": (["tz"], 1), "localize": (["dt", "is_dst"], 1), "get": (["key", "default"], 2),
                    "setdefault": (["key", "default"], 2), "pop": (["key", "default"], 2)}


def _external_canonical(call):
    """rewrite a call of a listed library function into its canonical positional / keyword split; True if something changed"""
    d = dotted(call.func)
    sig = None
    if d is not None:
        d2 = d.replace("numpy.", "np.").replace("pandas.", "pd.")
        sig = EXTERNAL_SIGNATURES.get(d2)
    if sig is None and isinstance(call.func, ast.Attribute) and call.func.attr in EXTERNAL_METHODS \
            and not (isinstance(call.func.value, ast.Name) and call.func.value.id in ("np", "pd", "numpy", "pandas")):
        sig = EXTERNAL_METHODS[call.func.attr]
    if sig is None or not sig[0]:
        return False
    params, npos = sig
    if any(isinstance(a, ast.Starred) for a in call.args) or any(k.arg is None for k in call.keywords) or len(call.args) > len(params):
        return False
    bound = dict(zip(params, call.args))
    for k in call.keywords:
        if k.arg in bound:
            return False
        bound[k.arg] = k.value
    new_args, i = [], 0
    while i < npos and i < len(params) and params[i] in bound:
        new_args.append(bound.pop(params[i]))
        i += 1
    order = {p: j for j, p in enumerate(params)}
    new_kw = [ast.keyword(arg=k, value=v) for k, v in sorted(bound.items(), key=lambda kv: order.get(kv[0], 99))]
    same = len(new_args) == len(call.args) and [k.arg for k in call.keywords] == [k.arg for k in new_kw]
    if same:
        return False
    # a positional argument that lands beyond the canonical positional prefix is only moved when every parameter before it is given
    if len(new_args) < min(len(call.args), npos):
        return False
    call.args, call.keywords = new_args, new_kw
    ast.fix_missing_locations(call)
    return True


_PURE_IN_LOG = {"len", "str", "repr", "int", "float", "sorted", "list", "tuple", "dict", "set", "sum", "min", "max", "round", "abs", "type", "id",
                "format", "join", "keys", "values", "items", "get", "isoformat", "strftime", "tolist", "any", "all", "bool", "enumerate", "zip", "range"}
_LOG_METHODS = {"debug", "info", "warning", "warn", "error", "critical", "exception", "log"}


def _drop_logging(tree):
    """Load-time normal form: a statement that only hands values to a logger (`logger.debug("...", x)`, `logging.info(...)`) changes nothing
    the program reads afterwards - it is dropped, and the logger object itself (`logger = logging.getLogger(__name__)`) is bound to None.
    A logging call whose arguments call anything but value formatters is kept as written (its arguments might have effects)."""
    loggers = set()
    for x in ast.walk(tree):
        if isinstance(x, (ast.Assign, ast.AnnAssign)) and getattr(x, "value", None) is not None and isinstance(x.value, ast.Call) \
                and dotted(x.value.func) in ("logging.getLogger", "getLogger"):
            for t in (x.targets if isinstance(x, ast.Assign) else [x.target]):
                d = dotted(t)
                if d:
                    loggers.add(d)
    dropped = [0]

    def is_log_call(c):
        if not (isinstance(c, ast.Call) and isinstance(c.func, ast.Attribute) and c.func.attr in _LOG_METHODS):
            return False
        base = dotted(c.func.value)
        if not (base in loggers or base == "logging" or (isinstance(c.func.value, ast.Call) and dotted(c.func.value.func) in ("logging.getLogger", "getLogger"))):
            return False
        for a in list(c.args) + [k.value for k in c.keywords]:
            for y in ast.walk(a):
                if isinstance(y, (ast.Await, ast.Yield, ast.YieldFrom, ast.NamedExpr)):
                    return False
                if isinstance(y, ast.Call):
                    nm = y.func.attr if isinstance(y.func, ast.Attribute) else (y.func.id if isinstance(y.func, ast.Name) else None)
                    if nm not in _PURE_IN_LOG:
                        return False
        return True

    class L(ast.NodeTransformer):
        def visit_Expr(self, n):
            if is_log_call(n.value):
                dropped[0] += 1
                return ast.copy_location(ast.Pass(), n)
            return n

        def visit_If(self, n):
            n = self.generic_visit(n)
            # `if logger.isEnabledFor(..): <only logging>` leaves an empty branch behind
            if all(isinstance(b, ast.Pass) for b in n.body) and not n.orelse and isinstance(n.test, ast.Call) and isinstance(n.test.func, ast.Attribute) \
                    and n.test.func.attr == "isEnabledFor" and dotted(n.test.func.value) in loggers:
                return ast.copy_location(ast.Pass(), n)
            return n

        def visit_Assign(self, n):
            if isinstance(n.value, ast.Call) and dotted(n.value.func) in ("logging.getLogger", "getLogger"):
                n.value = ast.copy_location(ast.Constant(value=None), n.value)
            return n

        def visit_AnnAssign(self, n):
            if n.value is not None and isinstance(n.value, ast.Call) and dotted(n.value.func) in ("logging.getLogger", "getLogger"):
                n.value = ast.copy_location(ast.Constant(value=None), n.value)
            return n
    tree = L().visit(tree)
    # a body must not become empty / keep a leading docstring intact: Pass statements are harmless
    return tree, dropped[0]


# setattr(obj, <computed name>, ..) sites confirmed by reading: the names they can store are never those of class-level constants
DYNAMIC_SETATTR_OK = {
    ("acnportal/acnsim/base.py", "add_hook"): "names from dir(operator) filtered to __dunder__ names: operator hooks of the error stub class",
    ("acnportal/acnsim/base.py", "_from_registry"): "generic loader fallback: restores the keys dumped from an instance's __dict__ (instance attributes; a class-level "
                                                     "constant is in no instance __dict__ unless some store puts it there - and any static store disqualifies the name)",
}


def _hoist_walrus(tree):
    """Load-time normal form: `if (n := E) < k:` is `n = E; if n < k:` - an assignment expression that is evaluated whenever the statement
    is (not in the right operand of and/or, not in an arm of a conditional expression, a comprehension or a lambda) and whose left
    neighbours in evaluation order call nothing is written as the assignment statement it stands for.  `while (x := E) ...:` (no else
    clause) becomes `while True: x = E; if not (...): break; ...`."""
    import copy as _c
    count = [0]

    def has_call(e):
        return any(isinstance(x, (ast.Call, ast.Await, ast.Yield, ast.YieldFrom)) for x in ast.walk(e))

    def collect(e, out, blocked):
        """walk e in evaluation order; append hoistable NamedExpr nodes; returns True once something with a call was passed"""
        if isinstance(e, ast.NamedExpr):
            inner = collect(e.value, out, blocked)
            if not blocked and isinstance(e.target, ast.Name):
                out.append(e)           # nothing with a call is evaluated before it: its own value may call
            return blocked or inner or has_call(e.value)
        if isinstance(e, ast.BoolOp):
            return collect(e.values[0], out, blocked) or any(has_call(v) for v in e.values[1:])
        if isinstance(e, ast.IfExp):
            return collect(e.test, out, blocked) or has_call(e.body) or has_call(e.orelse)
        if isinstance(e, (ast.Lambda, ast.ListComp, ast.SetComp, ast.DictComp, ast.GeneratorExp)):
            return blocked or has_call(e)
        if isinstance(e, ast.Call):
            for ch in [e.func] + list(e.args) + [k.value for k in e.keywords]:
                blocked = collect(ch, out, blocked)
            return True
        for ch in ast.iter_child_nodes(e):
            if isinstance(ch, ast.expr):
                blocked = collect(ch, out, blocked)
        return blocked

    def strip(e, picked):
        class S(ast.NodeTransformer):
            def visit_NamedExpr(self, n):
                n = self.generic_visit(n)
                if any(n is p for p in picked):
                    return ast.copy_location(ast.Name(id=n.target.id, ctx=ast.Load()), n)
                return n
        return S().visit(e)

    def hoisted(expr, at):
        out = []
        collect(expr, out, False)
        pre = []
        for ne in out:
            pre.append(ast.fix_missing_locations(ast.copy_location(
                ast.Assign(targets=[ast.Name(id=ne.target.id, ctx=ast.Store())], value=ne.value, type_comment=None), at)))
        # inner walruses of a hoisted value were collected before the outer one: their values are already plain names when assigned
        return out, pre

    def any_to_loop(st):
        """`if any(C for x in IT): <leaves>`  is  `for x in IT: if C: <leaves>`   (also `if not all(C ...)` with C negated); <leaves> ends in
        raise / return, so nothing after the first hit runs either way"""
        if not (isinstance(st, ast.If) and not st.orelse and st.body and isinstance(st.body[-1], (ast.Raise, ast.Return))):
            return None
        t, neg = st.test, False
        while isinstance(t, ast.UnaryOp) and isinstance(t.op, ast.Not):
            t, neg = t.operand, not neg
        if not (isinstance(t, ast.Call) and isinstance(t.func, ast.Name) and t.func.id in ("any", "all") and len(t.args) == 1 and not t.keywords
                and isinstance(t.args[0], (ast.GeneratorExp, ast.ListComp)) and len(t.args[0].generators) == 1 and not t.args[0].generators[0].is_async):
            return None
        if (t.func.id == "any") == neg:
            return None          # `if not any(..)` / `if all(..)`: the body runs when no element hits - not a per-element exit
        g = t.args[0].generators[0]
        cond = t.args[0].elt if t.func.id == "any" else ast.UnaryOp(op=ast.Not(), operand=t.args[0].elt)
        inner = ast.If(test=cond, body=st.body, orelse=[])
        for c in reversed(g.ifs):
            inner = ast.If(test=c, body=[inner], orelse=[])
        loop = ast.For(target=g.target, iter=g.iter, body=[inner], orelse=[], type_comment=None)
        return ast.fix_missing_locations(ast.copy_location(loop, st))

    def comp_walrus(tree_):
        """`[n for x in S if (n := x.a) is not None and n.b]`  is  `[x.a for x in S if x.a is not None and x.a.b]` - an assignment expression in a
        comprehension whose value is a call-free expression over the loop variable is replaced, with its later reads, by that expression"""
        class C(ast.NodeTransformer):
            def _comp(self, n):
                n = self.generic_visit(n)
                nes = [x for g in n.generators for c in g.ifs for x in ast.walk(c) if isinstance(x, ast.NamedExpr) and isinstance(x.target, ast.Name)]
                for ne in nes:
                    if has_call(ne.value) or any(isinstance(y, ast.NamedExpr) for y in ast.walk(ne.value)):
                        continue
                    nm = ne.target.id
                    if sum(1 for x in ast.walk(n) if isinstance(x, ast.NamedExpr) and isinstance(x.target, ast.Name) and x.target.id == nm) != 1:
                        continue
                    if any(isinstance(g.target, ast.Name) and g.target.id == nm for g in n.generators):
                        continue
                    # the assignment must be the first thing its filter evaluates that mentions the name (reads to its left would see an older value)
                    first_if = next(c for g in n.generators for c in g.ifs if any(x is ne for x in ast.walk(c)))
                    order = [x for x in ast.walk(first_if) if (isinstance(x, ast.Name) and x.id == nm and isinstance(x.ctx, ast.Load)) or x is ne]
                    val = ne.value

                    class S(ast.NodeTransformer):
                        def visit_NamedExpr(self, x):
                            if x is ne:
                                return _c.deepcopy(val)
                            return self.generic_visit(x)

                        def visit_Name(self, x):
                            return _c.deepcopy(val) if x.id == nm and isinstance(x.ctx, ast.Load) else x
                    n = S().visit(n)
                    count[0] += 1
                return ast.fix_missing_locations(n)
            visit_ListComp = visit_SetComp = visit_GeneratorExp = visit_DictComp = _comp
        return C().visit(tree_)

    def split_and(st):
        """`if A and (n := E) > 0: S` (no else)  is  `if A: if (n := E) > 0: S` - the assignment expression then leads its own test"""
        if not (isinstance(st, ast.If) and not st.orelse and isinstance(st.test, ast.BoolOp) and isinstance(st.test.op, ast.And)):
            return None
        vals = st.test.values
        k = next((i for i, v in enumerate(vals) if i > 0 and any(isinstance(x, ast.NamedExpr) for x in ast.walk(v))), None)
        if k is None:
            return None
        first = vals[0] if k == 1 else ast.BoolOp(op=ast.And(), values=vals[:k])
        rest = vals[k] if k == len(vals) - 1 else ast.BoolOp(op=ast.And(), values=vals[k:])
        inner = ast.If(test=rest, body=st.body, orelse=[])
        return ast.fix_missing_locations(ast.copy_location(ast.If(test=first, body=[ast.copy_location(inner, st)], orelse=[]), st))

    def block(stmts):
        res = []
        for st in stmts:
            sp = split_and(st)
            if sp is not None:
                st = sp
                count[0] += 1
            lp = any_to_loop(st)
            if lp is not None:
                st = lp
                count[0] += 1
            for fld in ("body", "orelse", "finalbody"):
                if isinstance(getattr(st, fld, None), list) and not isinstance(st, (ast.FunctionDef, ast.AsyncFunctionDef, ast.ClassDef)):
                    setattr(st, fld, block(getattr(st, fld)))
            if isinstance(st, ast.Try):
                for h in st.handlers:
                    h.body = block(h.body)
            if isinstance(st, (ast.FunctionDef, ast.AsyncFunctionDef, ast.ClassDef)):
                st.body = block(st.body)
                res.append(st)
                continue
            target_field = {ast.If: "test", ast.Assign: "value", ast.AugAssign: "value", ast.AnnAssign: "value", ast.Expr: "value", ast.Return: "value", ast.While: "test"}.get(type(st))
            e = getattr(st, target_field, None) if target_field else None
            if e is None or not any(isinstance(x, ast.NamedExpr) for x in ast.walk(e)):
                res.append(st)
                continue
            picked, pre = hoisted(e, st)
            if not picked:
                res.append(st)
                continue
            for p_ in pre:
                p_.value = strip(p_.value, [q for q in picked if q is not p_])
            new_e = strip(e, picked)
            if isinstance(st, ast.While):
                if st.orelse:
                    res.append(st)
                    continue
                brk = ast.If(test=ast.UnaryOp(op=ast.Not(), operand=new_e), body=[ast.Break()], orelse=[])
                st.test = ast.Constant(value=True)
                st.body = pre + [brk] + st.body
                ast.fix_missing_locations(ast.copy_location(brk, st))
                res.append(ast.fix_missing_locations(st))
            else:
                setattr(st, target_field, new_e)
                res.extend(pre)
                res.append(ast.fix_missing_locations(st))
            count[0] += len(picked)
        return res
    tree = comp_walrus(tree)
    tree.body = block(tree.body)
    return tree, count[0]


def _inline_named_constants(trees):
    """Load-time normal form: a name that is bound exactly once to a closed literal - at module level (`_TOL = 1e-3`, also reached through
    `from .mod import _TOL`) or in a class body (`class C: TOL = 1e-3`, read as self.TOL / cls.TOL / C.TOL) - and never rebound (no other
    store, no `global`, no attribute store of that name anywhere in the package) denotes that literal wherever it is read; the reads are
    replaced by the literal so that `x * 1000` and `x * _WATTS_PER_KILOWATT` are the same program to every rule.  A changed value of such
    a constant therefore reaches the rules exactly like a changed literal.  Scalars (numbers, text, bool, None) are replaced everywhere;
    closed tuples / lists / sets / frozensets of scalars at membership tests, iteration sources and constant subscripts.
    Returns {module: {name: value}} (evidence)."""
    import copy as _c
    SCALAR = (int, float, str, bool, type(None), complex)

    def closed(v):
        return isinstance(v, SCALAR) or (isinstance(v, (tuple, list, set, frozenset)) and all(isinstance(x, SCALAR) or (isinstance(x, tuple) and all(isinstance(y, SCALAR) for y in x)) for x in v))

    def top_level_stmts(body):
        for n in body:
            yield n
            if isinstance(n, (ast.If, ast.Try, ast.With, ast.For, ast.While)):
                for blk in ("body", "orelse", "finalbody"):
                    yield from top_level_stmts(getattr(n, blk, []) or [])
                for h in getattr(n, "handlers", []) or []:
                    yield from top_level_stmts(h.body)

    def scope_stores(body):
        """names stored directly in a scope body (module / class), not in nested defs"""
        cnt = {}
        for n in top_level_stmts(body):
            if isinstance(n, (ast.FunctionDef, ast.AsyncFunctionDef, ast.ClassDef)):
                cnt[n.name] = cnt.get(n.name, 0) + 1
                continue
            if isinstance(n, (ast.Import, ast.ImportFrom)):
                for a in n.names:
                    nm = a.asname or a.name.split(".")[0]
                    cnt[nm] = cnt.get(nm, 0) + 1
                continue
            stack = [n]
            while stack:
                x = stack.pop()
                if isinstance(x, (ast.FunctionDef, ast.AsyncFunctionDef, ast.ClassDef, ast.Lambda)) and x is not n:
                    continue
                if isinstance(x, ast.Name) and isinstance(x.ctx, (ast.Store, ast.Del)):
                    cnt[x.id] = cnt.get(x.id, 0) + 1
                if isinstance(x, ast.AugAssign) and isinstance(x.target, ast.Name):
                    cnt[x.target.id] = cnt.get(x.target.id, 0) + 1
                stack.extend(ast.iter_child_nodes(x))
        return cnt

    def subst_known(e, env):
        class S(ast.NodeTransformer):
            def visit_Name(self, n):
                if isinstance(n.ctx, ast.Load) and n.id in env:
                    return _c.deepcopy(env[n.id][1])
                return n
        return S().visit(_c.deepcopy(e))

    # attribute names stored anywhere (self.X = .., obj.X += ..): such a name is state, never a class constant
    attr_stored = set()
    globals_declared = {}
    def literal_names(scope, var):
        """the texts a loop variable ranges over when every loop over it in `scope` walks a literal list of texts (directly, through a
        name bound once to such a literal in the scope / module, or a class-level tuple); None if not closed"""
        lits = {}
        for y in ast.walk(scope):
            if isinstance(y, (ast.Assign, ast.AnnAssign)) and getattr(y, "value", None) is not None and isinstance(y.value, (ast.List, ast.Tuple)) \
                    and all(isinstance(e, ast.Constant) and isinstance(e.value, str) for e in y.value.elts):
                for t in (y.targets if isinstance(y, ast.Assign) else [y.target]):
                    d = dotted(t)
                    if d:
                        lits.setdefault(d.split(".")[-1], []).append([e.value for e in y.value.elts])
        out, found = set(), False
        for y in ast.walk(scope):
            it = None
            if isinstance(y, (ast.For, ast.comprehension)) and isinstance(y.target, ast.Name) and y.target.id == var:
                it = y.iter
            if it is None:
                continue
            found = True
            if isinstance(it, (ast.List, ast.Tuple)) and all(isinstance(e, ast.Constant) and isinstance(e.value, str) for e in it.elts):
                out |= {e.value for e in it.elts}
                continue
            d = dotted(it)
            key = d.split(".")[-1] if d else None
            if key in lits and len(lits[key]) == 1:
                out |= set(lits[key][0])
                continue
            return None
        return out if found else None

    for rel, tree in trees.items():
        parents = {}
        for p in ast.walk(tree):
            for ch in ast.iter_child_nodes(p):
                parents[ch] = p
        for x in ast.walk(tree):
            if isinstance(x, ast.Attribute) and isinstance(x.ctx, (ast.Store, ast.Del)):
                attr_stored.add(x.attr)
            elif isinstance(x, ast.Call) and isinstance(x.func, ast.Name) and x.func.id == "setattr" and len(x.args) >= 2:
                if isinstance(x.args[1], ast.Constant) and isinstance(x.args[1].value, str):
                    attr_stored.add(x.args[1].value)
                else:
                    names = None
                    if isinstance(x.args[1], ast.Name):
                        sc = x
                        while sc in parents and not isinstance(sc, (ast.FunctionDef, ast.AsyncFunctionDef)):
                            sc = parents[sc]
                        names = literal_names(sc, x.args[1].id) if isinstance(sc, (ast.FunctionDef, ast.AsyncFunctionDef)) else None
                        if names is None and isinstance(sc, (ast.FunctionDef, ast.AsyncFunctionDef)):
                            # the literal may live at class / module level
                            names = literal_names(tree, x.args[1].id)
                    fn_name = sc.name if isinstance(sc, (ast.FunctionDef, ast.AsyncFunctionDef)) else None
                    if names is None and (rel, fn_name) in DYNAMIC_SETATTR_OK:
                        names = set()
                    if names is None:
                        attr_stored.add("*")
                    else:
                        attr_stored |= names
            elif isinstance(x, (ast.Global, ast.Nonlocal)):
                globals_declared.setdefault(rel, set()).update(x.names)

    # module-level constants
    mod = {}
    for rel, tree in trees.items():
        cnt = scope_stores(tree.body)
        env = {}
        for n in tree.body:
            tgt = val = None
            if isinstance(n, ast.Assign) and len(n.targets) == 1 and isinstance(n.targets[0], ast.Name):
                tgt, val = n.targets[0].id, n.value
            elif isinstance(n, ast.AnnAssign) and isinstance(n.target, ast.Name) and n.value is not None:
                tgt, val = n.target.id, n.value
            if tgt is None or cnt.get(tgt, 0) != 1 or tgt in globals_declared.get(rel, ()) or (tgt.startswith("__") and tgt.endswith("__") and tgt in ("__all__", "__version__", "__author__")):
                continue
            try:
                v = const_value(subst_known(val, env))
            except (ValueError, TypeError, ZeroDivisionError, KeyError, IndexError):
                continue
            if closed(v):
                env[tgt] = (v, subst_known(val, env))
        mod[rel] = env

    def resolve_module(rel, level, module):
        parts = rel.split("/")[:-1]
        if level:
            parts = parts[:len(parts) - (level - 1)] if level > 1 else parts
        else:
            parts = []
        if module:
            parts = parts + module.split(".")
        for cand in ("/".join(parts) + ".py", "/".join(parts) + "/__init__.py"):
            if cand in trees:
                return cand
        return None

    # constants reached through `from .mod import NAME [as N]` (bound once at module level here, too)
    imported = {}
    for rel, tree in trees.items():
        cnt = scope_stores(tree.body)
        env = {}
        for n in tree.body:
            if isinstance(n, ast.ImportFrom):
                src_rel = resolve_module(rel, n.level, n.module)
                if src_rel is None:
                    continue
                for a in n.names:
                    nm = a.asname or a.name
                    if a.name in mod.get(src_rel, {}) and cnt.get(nm, 0) == 1 and nm not in globals_declared.get(rel, ()):
                        env[nm] = mod[src_rel][a.name]
        imported[rel] = env

    # class-level constants: one literal binding in a class body, the attribute name never stored anywhere, and every class body that
    # binds the name binds the same value (so `self.NAME` means that value whatever the dynamic class is)
    cls_vals = {}
    for rel, tree in trees.items():
        for c in ast.walk(tree):
            if not isinstance(c, ast.ClassDef):
                continue
            cnt = scope_stores(c.body)
            for n in c.body:
                tgt = val = None
                if isinstance(n, ast.Assign) and len(n.targets) == 1 and isinstance(n.targets[0], ast.Name):
                    tgt, val = n.targets[0].id, n.value
                elif isinstance(n, ast.AnnAssign) and isinstance(n.target, ast.Name) and n.value is not None:
                    tgt, val = n.target.id, n.value
                if tgt is None:
                    continue
                ok = cnt.get(tgt, 0) == 1 and tgt not in attr_stored and "*" not in attr_stored
                v = None
                if ok:
                    try:
                        val = subst_known(val, {**mod.get(rel, {}), **imported.get(rel, {})})
                        v = const_value(val)
                        ok = closed(v)
                    except (ValueError, TypeError, ZeroDivisionError, KeyError, IndexError):
                        ok = False
                cls_vals.setdefault(tgt, []).append((ok, v, c.name, val))
    cls_const = {}
    for nm, lst in cls_vals.items():
        if all(ok for ok, *_ in lst) and len({(type(v).__name__, repr(v)) for _, v, *_ in lst}) == 1:
            cls_const[nm] = (lst[0][1], {c for _, _, c, _ in lst}, lst[0][3])
    class_names = {c.name for tree in trees.values() for c in ast.walk(tree) if isinstance(c, ast.ClassDef)}

    report = {}
    for rel, tree in trees.items():
        env0 = {**mod.get(rel, {}), **imported.get(rel, {})}
        used = report.setdefault(rel, {})

        def lit(v, at):
            if isinstance(v, SCALAR):
                if isinstance(v, (int, float)) and not isinstance(v, bool) and v < 0:
                    node = ast.UnaryOp(op=ast.USub(), operand=ast.Constant(value=-v))
                else:
                    node = ast.Constant(value=v)
            else:
                node = None
            return ast.fix_missing_locations(ast.copy_location(node, at)) if node is not None else None

        class R(ast.NodeTransformer):
            def __init__(self):
                self.shadow = [set()]
                self.container_ok = False

            def _scope(self, n, names):
                self.shadow.append(self.shadow[-1] | names)
                try:
                    return self.generic_visit(n)
                finally:
                    self.shadow.pop()

            def visit_FunctionDef(self, n):
                a = n.args
                # decorators and defaults are evaluated in the enclosing scope
                n.decorator_list = [self.visit(d) for d in n.decorator_list]
                a.defaults = [self.visit(d) for d in a.defaults]
                a.kw_defaults = [self.visit(d) if d is not None else None for d in a.kw_defaults]
                names = {x.arg for x in a.posonlyargs + a.args + a.kwonlyargs}
                if a.vararg:
                    names.add(a.vararg.arg)
                if a.kwarg:
                    names.add(a.kwarg.arg)
                stack = list(n.body)
                while stack:
                    x = stack.pop()
                    if isinstance(x, (ast.FunctionDef, ast.AsyncFunctionDef, ast.ClassDef)):
                        names.add(x.name)
                        continue
                    if isinstance(x, ast.Lambda):
                        continue
                    if isinstance(x, ast.Name) and isinstance(x.ctx, (ast.Store, ast.Del)):
                        names.add(x.id)
                    if isinstance(x, (ast.Import, ast.ImportFrom)):
                        for al in x.names:
                            names.add(al.asname or al.name.split(".")[0])
                    stack.extend(ast.iter_child_nodes(x))
                self.shadow.append(self.shadow[-1] | names)
                try:
                    n.body = [self.visit(st) for st in n.body]
                finally:
                    self.shadow.pop()
                return n
            visit_AsyncFunctionDef = visit_FunctionDef

            def visit_Lambda(self, n):
                a = n.args
                names = {x.arg for x in a.posonlyargs + a.args + a.kwonlyargs} | ({a.vararg.arg} if a.vararg else set()) | ({a.kwarg.arg} if a.kwarg else set())
                return self._scope(n, names)

            def visit_ClassDef(self, n):
                # names bound in the class body shadow inside the body statements only (not inside methods); the constants themselves
                # keep their defining statement
                return self.generic_visit(n)

            def visit_Name(self, n):
                if isinstance(n.ctx, ast.Load) and n.id in env0 and n.id not in self.shadow[-1]:
                    v, node = env0[n.id]
                    if isinstance(v, SCALAR):
                        used[n.id] = repr(v)
                        return lit(v, n)
                    if self.container_ok or isinstance(v, (tuple, frozenset)):       # immutable: the same value wherever it is read
                        used[n.id] = repr(v)[:60]
                        return ast.fix_missing_locations(ast.copy_location(_c.deepcopy(node), n))
                return n

            def _container(self, e):
                old, self.container_ok = self.container_ok, True
                try:
                    if isinstance(e, ast.Attribute):
                        e._container_ok = True
                        return self.visit_Attribute(e)
                    return self.visit(e) if isinstance(e, ast.Name) else e
                finally:
                    self.container_ok = old

            def visit_Compare(self, n):
                n = self.generic_visit(n)
                n.comparators = [self._container(c) if isinstance(op, (ast.In, ast.NotIn)) else c for op, c in zip(n.ops, n.comparators)]
                return n

            def visit_For(self, n):
                n = self.generic_visit(n)
                n.iter = self._container(n.iter)
                return n

            def visit_comprehension(self, n):
                n = self.generic_visit(n)
                n.iter = self._container(n.iter)
                return n

            def visit_Subscript(self, n):
                n = self.generic_visit(n)
                if isinstance(n.ctx, ast.Load) and isinstance(n.slice, ast.Constant):
                    n.value = self._container(n.value)
                return n

            def visit_Attribute(self, n):
                n = self.generic_visit(n)
                if isinstance(n.ctx, ast.Load) and n.attr in cls_const:
                    b = n.value
                    base_ok = (isinstance(b, ast.Name) and (b.id in ("self", "cls") or b.id in cls_const[n.attr][1] or b.id in class_names)) \
                        or (isinstance(b, ast.Call) and isinstance(b.func, ast.Name) and b.func.id == "type" and len(b.args) == 1 and isinstance(b.args[0], ast.Name) and b.args[0].id == "self") \
                        or (isinstance(b, ast.Attribute) and b.attr == "__class__" and isinstance(b.value, ast.Name) and b.value.id == "self")
                    cv = cls_const[n.attr][0]
                    if base_ok and isinstance(cv, SCALAR):
                        used[f".{n.attr}"] = repr(cv)
                        return lit(cv, n)
                    if base_ok and (isinstance(cv, (tuple, frozenset)) or getattr(n, "_container_ok", False)):
                        used[f".{n.attr}"] = repr(cv)[:60]
                        return ast.fix_missing_locations(ast.copy_location(_c.deepcopy(cls_const[n.attr][2]), n))
                return n

            def visit_Assign(self, n):
                # the defining statement itself keeps its right-hand side as written
                if len(n.targets) == 1 and isinstance(n.targets[0], ast.Name) and n.targets[0].id in env0 and len(self.shadow) == 1:
                    return n
                return self.generic_visit(n)

            def visit_AnnAssign(self, n):
                if isinstance(n.target, ast.Name) and n.target.id in env0 and len(self.shadow) == 1:
                    return n
                return self.generic_visit(n)
        trees[rel] = R().visit(tree)
    return {k: v for k, v in report.items() if v}


def _fold_fstrings(node):
    """f"{'>='} x": a formatted constant without conversion / format spec is part of the literal text (in place, for a whole subtree)"""
    for n in ast.walk(node):
        if isinstance(n, ast.JoinedStr):
            out = []
            for v in n.values:
                if isinstance(v, ast.FormattedValue) and isinstance(v.value, ast.Constant) and isinstance(v.value.value, (str, int)) and not isinstance(v.value.value, bool) \
                        and v.conversion == -1 and v.format_spec is None:
                    v = ast.Constant(value=str(v.value.value))
                if isinstance(v, ast.Constant) and out and isinstance(out[-1], ast.Constant):
                    out[-1] = ast.Constant(value=str(out[-1].value) + str(v.value))
                else:
                    out.append(v)
            n.values = out
    return node


def _split_tuple_assignments(tree):
    """`a, b = x, y` with independent sides is the same as `a = x; b = y` (no target occurs in a later right-hand side): the
    parallel form is split so that every store has its own value expression"""
    OPS = {"lt": ast.Lt, "le": ast.LtE, "gt": ast.Gt, "ge": ast.GtE, "eq": ast.Eq, "ne": ast.NotEq}
    # names under which operator.attrgetter / itemgetter are known in this module
    getters = {}
    op_mods = set()
    for st_ in ast.walk(tree):
        if isinstance(st_, ast.ImportFrom) and st_.module == "operator":
            for a_ in st_.names:
                if a_.name in ("attrgetter", "itemgetter"):
                    getters[a_.asname or a_.name] = a_.name
        elif isinstance(st_, ast.Import):
            for a_ in st_.names:
                if a_.name == "operator":
                    op_mods.add(a_.asname or "operator")

    def getter_kind(fn_):
        if isinstance(fn_, ast.Name) and fn_.id in getters:
            return getters[fn_.id]
        if isinstance(fn_, ast.Attribute) and isinstance(fn_.value, ast.Name) and fn_.value.id in op_mods and fn_.attr in ("attrgetter", "itemgetter"):
            return fn_.attr
        return None

    class T(ast.NodeTransformer):
        def visit_Call(self, n):
            self.generic_visit(n)
            # attrgetter("a.b") is  lambda g: g.a.b ;  itemgetter(k) is  lambda g: g[k]   (several names / keys: the tuple of them)
            gk = getter_kind(n.func)
            if gk is not None and n.args and not n.keywords and all(isinstance(a, ast.Constant) for a in n.args) \
                    and (gk == "itemgetter" or all(isinstance(a.value, str) and all(p.isidentifier() for p in a.value.split(".")) for a in n.args)):
                gv = f"__g{getattr(n, 'lineno', 0)}_{getattr(n, 'col_offset', 0)}"

                def one(a):
                    base = ast.Name(id=gv, ctx=ast.Load())
                    if gk == "itemgetter":
                        return ast.Subscript(value=base, slice=ast.Constant(value=a.value), ctx=ast.Load())
                    for part in a.value.split("."):
                        base = ast.Attribute(value=base, attr=part, ctx=ast.Load())
                    return base
                body = one(n.args[0]) if len(n.args) == 1 else ast.Tuple(elts=[one(a) for a in n.args], ctx=ast.Load())
                lam = ast.Lambda(args=ast.arguments(posonlyargs=[], args=[ast.arg(arg=gv)], kwonlyargs=[], kw_defaults=[], defaults=[]), body=body)
                return ast.fix_missing_locations(ast.copy_location(lam, n))
            # (lambda g: E)(x)  with one plain parameter and a side-effect-free argument  is  E[g := x]
            if isinstance(n.func, ast.Lambda) and len(n.args) == 1 and not n.keywords and len(n.func.args.args) == 1 and not n.func.args.defaults \
                    and not n.func.args.vararg and not n.func.args.kwarg and isinstance(n.args[0], (ast.Name, ast.Attribute, ast.Constant)):
                import copy as _c
                p_ = n.func.args.args[0].arg
                arg_ = n.args[0]

                class S3(ast.NodeTransformer):
                    def visit_Name(self, x):
                        return _c.deepcopy(arg_) if x.id == p_ and isinstance(x.ctx, ast.Load) else x
                return ast.fix_missing_locations(ast.copy_location(S3().visit(_c.deepcopy(n.func.body)), n))
            # map(f, xs) is (f(x) for x in xs); filter(f, xs) is (x for x in xs if f(x)); list(<generator expression>) is the list comprehension
            if isinstance(n.func, ast.Name) and n.func.id in ("map", "filter") and len(n.args) == 2 and not n.keywords \
                    and not any(isinstance(a, ast.Starred) for a in n.args) and isinstance(n.args[0], (ast.Name, ast.Attribute, ast.Lambda, ast.Constant)):
                import copy as _c
                var = f"__m{getattr(n, 'lineno', 0)}_{getattr(n, 'col_offset', 0)}"
                fx, xs = n.args
                arg = ast.Name(id=var, ctx=ast.Load())
                if isinstance(fx, ast.Lambda) and len(fx.args.args) == 1 and not fx.args.defaults and not fx.args.vararg and not fx.args.kwarg and not fx.args.kwonlyargs:
                    p_ = fx.args.args[0].arg

                    class S_(ast.NodeTransformer):
                        def visit_Name(self, x):
                            return ast.Name(id=var, ctx=ast.Load()) if x.id == p_ and isinstance(x.ctx, ast.Load) else x
                    applied = S_().visit(_c.deepcopy(fx.body))
                elif isinstance(fx, ast.Constant) and fx.value is None and n.func.id == "filter":
                    applied = arg
                elif isinstance(fx, (ast.Name, ast.Attribute)):
                    applied = ast.Call(func=fx, args=[arg], keywords=[])
                else:
                    applied = None
                if applied is not None:
                    gen = ast.comprehension(target=ast.Name(id=var, ctx=ast.Store()), iter=xs, ifs=[] if n.func.id == "map" else [applied], is_async=0)
                    elt = applied if n.func.id == "map" else ast.Name(id=var, ctx=ast.Load())
                    return ast.fix_missing_locations(ast.copy_location(ast.GeneratorExp(elt=elt, generators=[gen]), n))
            # sorted(list(X)) / sum(tuple(X)) / any(list(X)) ...: a consumer that only iterates its argument sees the same elements in X itself
            if isinstance(n.func, ast.Name) and n.func.id in ("sorted", "sum", "min", "max", "any", "all", "set", "frozenset", "tuple", "list", "enumerate", "dict") \
                    and len(n.args) >= 1 and isinstance(n.args[0], ast.Call) and isinstance(n.args[0].func, ast.Name) and n.args[0].func.id in ("list", "tuple") \
                    and len(n.args[0].args) == 1 and not n.args[0].keywords and not isinstance(n.args[0].args[0], ast.Starred) \
                    and not (n.func.id in ("min", "max") and len(n.args) > 1):
                n.args[0] = n.args[0].args[0]
            # operator.index(x) is x (for the integers it accepts)
            if isinstance(n.func, ast.Attribute) and n.func.attr == "index" and isinstance(n.func.value, ast.Name) and n.func.value.id in op_mods and len(n.args) == 1 and not n.keywords:
                return n.args[0]
            if isinstance(n.func, ast.Name) and n.func.id == "list" and len(n.args) == 1 and not n.keywords and isinstance(n.args[0], ast.GeneratorExp):
                g_ = n.args[0]
                return ast.fix_missing_locations(ast.copy_location(ast.ListComp(elt=g_.elt, generators=g_.generators), n))
            # getattr(obj, "name")  with a literal identifier  is  obj.name
            if isinstance(n.func, ast.Name) and n.func.id == "getattr" and len(n.args) == 2 and not n.keywords and isinstance(n.args[1], ast.Constant) \
                    and isinstance(n.args[1].value, str) and n.args[1].value.isidentifier() and isinstance(n.args[0], (ast.Name, ast.Attribute)):
                return ast.fix_missing_locations(ast.copy_location(ast.Attribute(value=n.args[0], attr=n.args[1].value, ctx=ast.Load()), n))
            # getattr(obj, "name", None): the same read where the attribute exists (marked: it tolerates absence, so the definite-
            # initialisation rule does not apply to it)
            if isinstance(n.func, ast.Name) and n.func.id == "getattr" and len(n.args) == 3 and not n.keywords and isinstance(n.args[1], ast.Constant) \
                    and isinstance(n.args[1].value, str) and n.args[1].value.isidentifier() and isinstance(n.args[0], (ast.Name, ast.Attribute)) \
                    and isinstance(n.args[2], ast.Constant) and n.args[2].value is None:
                at_ = ast.fix_missing_locations(ast.copy_location(ast.Attribute(value=n.args[0], attr=n.args[1].value, ctx=ast.Load()), n))
                at_._optional_read = True
                return at_
            # f(*(g(x) for x in (a, b)))  ->  f(g(a), g(b))     (a literal tuple of at most four elements)
            if any(isinstance(a, ast.Starred) and isinstance(a.value, (ast.GeneratorExp, ast.ListComp)) for a in n.args):
                args, ok = [], True
                for a in n.args:
                    c = a.value if isinstance(a, ast.Starred) else None
                    if isinstance(c, (ast.GeneratorExp, ast.ListComp)) and len(c.generators) == 1 and not c.generators[0].ifs \
                            and isinstance(c.generators[0].iter, (ast.Tuple, ast.List)) and len(c.generators[0].iter.elts) <= 4 \
                            and isinstance(c.generators[0].target, ast.Name):
                        var = c.generators[0].target.id
                        for el in c.generators[0].iter.elts:
                            class S(ast.NodeTransformer):
                                def visit_Name(self, x, el=el, var=var):
                                    import copy as _c
                                    return _c.deepcopy(el) if x.id == var and isinstance(x.ctx, ast.Load) else x
                            import copy as _c
                            args.append(S().visit(_c.deepcopy(c.elt)))
                    elif isinstance(a, ast.Starred):
                        ok = False
                        break
                    else:
                        args.append(a)
                if ok:
                    n = ast.copy_location(ast.Call(func=n.func, args=args, keywords=n.keywords), n)
            # dict(zip(K, V))  ->  {k: v for k, v in zip(K, V)}
            if isinstance(n.func, ast.Name) and n.func.id == "dict" and len(n.args) == 1 and not n.keywords and isinstance(n.args[0], ast.Call) \
                    and isinstance(n.args[0].func, ast.Name) and n.args[0].func.id == "zip" and len(n.args[0].args) == 2 and not n.args[0].keywords \
                    and not any(isinstance(a, ast.Starred) for a in n.args[0].args):
                k_, v_ = ast.Name(id="__zk", ctx=ast.Store()), ast.Name(id="__zv", ctx=ast.Store())
                gen = ast.comprehension(target=ast.Tuple(elts=[k_, v_], ctx=ast.Store()), iter=n.args[0], ifs=[], is_async=0)
                return ast.copy_location(ast.DictComp(key=ast.Name(id="__zk", ctx=ast.Load()), value=ast.Name(id="__zv", ctx=ast.Load()), generators=[gen]), n)
            # attribute_dict.get(k, d)  ->  attribute_dict[k] if k in attribute_dict else d     (the serialisation protocol's plain dict;
            # the subscript form under a membership test is what the restore rules read)
            if isinstance(n.func, ast.Attribute) and n.func.attr == "get" and isinstance(n.func.value, ast.Name) and n.func.value.id == "attribute_dict" \
                    and 1 <= len(n.args) <= 2 and not n.keywords and isinstance(n.args[0], ast.Constant) and isinstance(n.args[0].value, str):
                import copy as _c
                d_ = ast.Name(id="attribute_dict", ctx=ast.Load())
                return ast.copy_location(ast.IfExp(
                    test=ast.Compare(left=_c.deepcopy(n.args[0]), ops=[ast.In()], comparators=[d_]),
                    body=ast.Subscript(value=ast.Name(id="attribute_dict", ctx=ast.Load()), slice=_c.deepcopy(n.args[0]), ctx=ast.Load()),
                    orelse=n.args[1] if len(n.args) == 2 else ast.Constant(value=None)), n)
            # operator.lt(a, b) -> a < b
            if isinstance(n.func, ast.Attribute) and isinstance(n.func.value, ast.Name) and n.func.value.id == "operator" and n.func.attr in OPS \
                    and len(n.args) == 2 and not n.keywords and not any(isinstance(a, ast.Starred) for a in n.args):
                return ast.copy_location(ast.Compare(left=n.args[0], ops=[OPS[n.func.attr]()], comparators=[n.args[1]]), n)
            return n

        def _unroll_literal_comprehension(self, n):
            """`L = [f(a, b) for a, b in [(k1, v1), (k2, v2)] if c(a, b)]` over a *literal* table of at most six rows is the list built
            row by row:  L = []; if c(k1, v1): L.append(f(k1, v1)); ...   (each row's condition then sits on an edge of its own)"""
            import copy as _c
            if not (isinstance(n, ast.Assign) and len(n.targets) == 1 and isinstance(n.targets[0], ast.Name) and isinstance(n.value, ast.ListComp)
                    and len(n.value.generators) == 1):
                return None
            g = n.value.generators[0]
            if not (isinstance(g.iter, (ast.List, ast.Tuple)) and 1 <= len(g.iter.elts) <= 6 and g.ifs):
                return None
            tnames = [x.id for x in ast.walk(g.target) if isinstance(x, ast.Name)]
            if n.targets[0].id in tnames or any(isinstance(x, ast.Name) and x.id == n.targets[0].id for x in ast.walk(n.value)):
                return None
            rows = []
            for row in g.iter.elts:
                env = {}
                if isinstance(g.target, ast.Name):
                    env[g.target.id] = row
                elif isinstance(g.target, (ast.Tuple, ast.List)) and isinstance(row, (ast.Tuple, ast.List)) and len(row.elts) == len(g.target.elts) \
                        and all(isinstance(t, ast.Name) for t in g.target.elts):
                    for t, v in zip(g.target.elts, row.elts):
                        env[t.id] = v
                else:
                    return None
                if any(not isinstance(v, (ast.Name, ast.Constant, ast.Attribute)) for v in env.values()):
                    return None          # values are substituted more than once: only side-effect-free leaves

                class S(ast.NodeTransformer):
                    def visit_Name(self, x, env=env):
                        return _c.deepcopy(env[x.id]) if x.id in env and isinstance(x.ctx, ast.Load) else x
                rows.append(([S().visit(_c.deepcopy(c)) for c in g.ifs], S().visit(_c.deepcopy(n.value.elt))))
            name = n.targets[0].id
            out = [ast.copy_location(ast.Assign(targets=[ast.Name(id=name, ctx=ast.Store())], value=ast.List(elts=[], ctx=ast.Load()), type_comment=None), n)]
            for conds, elt in rows:
                app = ast.Expr(value=ast.Call(func=ast.Attribute(value=ast.Name(id=name, ctx=ast.Load()), attr="append", ctx=ast.Load()), args=[elt], keywords=[]))
                test = conds[0] if len(conds) == 1 else ast.BoolOp(op=ast.And(), values=conds)
                out.append(ast.copy_location(ast.If(test=test, body=[app], orelse=[]), n))
            return [ast.fix_missing_locations(_fold_fstrings(o)) for o in out]

        def visit_Compare(self, n):
            n = self.generic_visit(n)
            # a < b <= c  is  a < b and b <= c   (b read twice: only for operands whose evaluation has no effect - names, attributes,
            # constants, subscripts of those)
            if isinstance(n, ast.Compare) and len(n.ops) > 1:
                def pure(e):
                    return isinstance(e, (ast.Name, ast.Constant)) or (isinstance(e, ast.Attribute) and pure(e.value)) or \
                        (isinstance(e, ast.Subscript) and pure(e.value) and pure(e.slice)) or (isinstance(e, ast.UnaryOp) and pure(e.operand))
                if all(pure(c) for c in n.comparators[:-1]):
                    import copy as _c
                    parts, left = [], n.left
                    for op, right in zip(n.ops, n.comparators):
                        parts.append(ast.Compare(left=_c.deepcopy(left), ops=[op], comparators=[_c.deepcopy(right)]))
                        left = right
                    return ast.fix_missing_locations(ast.copy_location(ast.BoolOp(op=ast.And(), values=parts), n))
            return n

        def visit_Expr(self, n):
            n = self.generic_visit(n)
            # setattr(obj, "name", v)  with a literal identifier  is  obj.name = v
            c = n.value if isinstance(n, ast.Expr) else None
            if isinstance(c, ast.Call) and isinstance(c.func, ast.Name) and c.func.id == "setattr" and len(c.args) == 3 and not c.keywords \
                    and isinstance(c.args[1], ast.Constant) and isinstance(c.args[1].value, str) and c.args[1].value.isidentifier() \
                    and isinstance(c.args[0], (ast.Name, ast.Attribute)):
                tgt = ast.Attribute(value=c.args[0], attr=c.args[1].value, ctx=ast.Store())
                return self.visit_Assign(ast.fix_missing_locations(ast.copy_location(ast.Assign(targets=[tgt], value=c.args[2], type_comment=None), n)))
            return n

        def visit_AnnAssign(self, n):
            # `x: T = v` is `x = v` (the annotation is not evaluated into anything the program reads); a bare `x: T` inside a function
            # declares nothing at run time
            if n.value is not None and isinstance(n.target, (ast.Name, ast.Attribute, ast.Subscript)):
                return self.visit_Assign(ast.copy_location(ast.Assign(targets=[n.target], value=n.value, type_comment=None), n))
            return self.generic_visit(n)

        def visit_Assign(self, n):
            n = self.generic_visit(n)
            un = self._unroll_literal_comprehension(n)
            if un is not None:
                return un
            # `a, b = (E(k) for k in (k1, k2))`  ->  `a = E(k1); b = E(k2)`   (a comprehension over a literal sequence, unpacked into as many names)
            if len(n.targets) == 1 and isinstance(n.targets[0], (ast.Tuple, ast.List)) and all(isinstance(t, ast.Name) for t in n.targets[0].elts) \
                    and isinstance(n.value, (ast.GeneratorExp, ast.ListComp)) and len(n.value.generators) == 1 and not n.value.generators[0].ifs \
                    and isinstance(n.value.generators[0].iter, (ast.Tuple, ast.List)) and len(n.value.generators[0].iter.elts) == len(n.targets[0].elts) \
                    and isinstance(n.value.generators[0].target, ast.Name) \
                    and not any(isinstance(x, ast.Starred) for x in n.value.generators[0].iter.elts) \
                    and all(isinstance(x, (ast.Constant, ast.Name, ast.Attribute)) for x in n.value.generators[0].iter.elts):
                import copy as _c
                var = n.value.generators[0].target.id
                tnames = {t.id for t in n.targets[0].elts}
                if not any(isinstance(x, ast.Name) and x.id in tnames for x in ast.walk(n.value.elt)):
                    out = []
                    for t, item in zip(n.targets[0].elts, n.value.generators[0].iter.elts):
                        class S2(ast.NodeTransformer):
                            def visit_Name(self, x, item=item):
                                return _c.deepcopy(item) if x.id == var and isinstance(x.ctx, ast.Load) else x
                        out.append(ast.fix_missing_locations(ast.copy_location(ast.Assign(targets=[t], value=S2().visit(_c.deepcopy(n.value.elt)), type_comment=None), n)))
                    return out
            # `a, *rest = G`  ->  `__s = list(G); a = __s[0]; rest = __s[1:]`   (head/tail split written as positions of one list)
            if len(n.targets) == 1 and isinstance(n.targets[0], (ast.Tuple, ast.List)) and len(n.targets[0].elts) == 2 \
                    and isinstance(n.targets[0].elts[0], ast.Name) and isinstance(n.targets[0].elts[1], ast.Starred) \
                    and isinstance(n.targets[0].elts[1].value, ast.Name):
                tmp = f"__s{getattr(n, 'lineno', 0)}"
                ld = lambda: ast.Name(id=tmp, ctx=ast.Load())
                out = [ast.Assign(targets=[ast.Name(id=tmp, ctx=ast.Store())], value=ast.Call(func=ast.Name(id="list", ctx=ast.Load()), args=[n.value], keywords=[]), type_comment=None),
                       ast.Assign(targets=[n.targets[0].elts[0]], value=ast.Subscript(value=ld(), slice=ast.Constant(value=0), ctx=ast.Load()), type_comment=None),
                       ast.Assign(targets=[n.targets[0].elts[1].value], value=ast.Subscript(value=ld(), slice=ast.Slice(lower=ast.Constant(value=1), upper=None, step=None), ctx=ast.Load()), type_comment=None)]
                return [ast.fix_missing_locations(ast.copy_location(o, n)) for o in out]
            # `obj.attr, acc = f(..)`  ->  `__u, acc = f(..); obj.attr = __u`   (each store gets a statement of its own)
            if len(n.targets) == 1 and isinstance(n.targets[0], ast.Tuple) and isinstance(n.value, ast.Call) \
                    and any(isinstance(t, (ast.Attribute, ast.Subscript)) for t in n.targets[0].elts) \
                    and all(isinstance(t, (ast.Attribute, ast.Subscript, ast.Name)) for t in n.targets[0].elts):
                import copy as _c
                elts, post = [], []
                for i_, t in enumerate(n.targets[0].elts):
                    if isinstance(t, ast.Name):
                        elts.append(t)
                    else:
                        tmp = f"__u{getattr(n, 'lineno', 0)}_{i_}"
                        elts.append(ast.Name(id=tmp, ctx=ast.Store()))
                        post.append(ast.copy_location(ast.Assign(targets=[t], value=ast.Name(id=tmp, ctx=ast.Load()), type_comment=None), n))
                first = ast.copy_location(ast.Assign(targets=[ast.Tuple(elts=elts, ctx=ast.Store())], value=n.value, type_comment=None), n)
                return [first] + post
            # a = b = v   ->   b = v; a = b      (b a plain name: both targets denote the same object afterwards)
            if len(n.targets) > 1 and not isinstance(n.targets[-1], ast.Name) and any(isinstance(t, ast.Name) for t in n.targets) \
                    and not any(isinstance(x, ast.Name) and x.id in {t.id for t in n.targets if isinstance(t, ast.Name)}
                                for t in n.targets if not isinstance(t, ast.Name) for x in ast.walk(t)):
                # levels = table[i] = v   ->   (as below, with the plain name moved to the end: the other targets do not mention it)
                nm_ = next(t for t in n.targets if isinstance(t, ast.Name))
                n.targets = [t for t in n.targets if t is not nm_] + [nm_]
            if len(n.targets) > 1 and isinstance(n.targets[-1], ast.Name):
                last = n.targets[-1]
                out = [ast.copy_location(ast.Assign(targets=[last], value=n.value, type_comment=None), n)]
                for t in n.targets[:-1]:
                    out.append(ast.copy_location(ast.Assign(targets=[t], value=ast.Name(id=last.id, ctx=ast.Load()), type_comment=None), n))
                res = []
                for o in out:
                    r_ = self.visit_Assign(o)
                    res += r_ if isinstance(r_, list) else [r_]
                return res
            if len(n.targets) == 1 and isinstance(n.targets[0], (ast.Tuple, ast.List)) and isinstance(n.value, (ast.Tuple, ast.List)) \
                    and len(n.targets[0].elts) == len(n.value.elts) and len(n.value.elts) > 1 \
                    and not any(isinstance(x, ast.Starred) for x in n.targets[0].elts + n.value.elts):
                tg = [" ".join(ast.unparse(t).split()) for t in n.targets[0].elts]
                roots = set()
                for t in n.targets[0].elts:
                    b = t
                    while isinstance(b, (ast.Subscript, ast.Attribute)):
                        b = b.value if not (isinstance(b, ast.Attribute) and isinstance(b.value, ast.Name) and b.value.id == "self") else None
                        if b is None:
                            break
                    if isinstance(b, ast.Name):
                        roots.add(b.id)
                for i, v in enumerate(n.value.elts):
                    if i == 0:
                        continue
                    vs = " ".join(ast.unparse(v).split())
                    names = {x.id for x in ast.walk(v) if isinstance(x, ast.Name)}
                    if any(t in vs for t in tg[:i]) or (names & roots):
                        return n
                    if any(isinstance(x, ast.Call) for x in ast.walk(v)) and any(isinstance(x, ast.Call) for y in n.value.elts[:i] for x in ast.walk(y)):
                        pass      # evaluation order of calls is kept by the split (left to right), stores interleave: accepted for analysis
                out = []
                for t, v in zip(n.targets[0].elts, n.value.elts):
                    out.append(ast.copy_location(ast.Assign(targets=[t], value=v, type_comment=None), n))
                return out
            # `X = a if c else b`  is  `if c: X = a / else: X = b`   (branch edges carry the condition for the rules)
            if len(n.targets) == 1 and isinstance(n.value, ast.IfExp) and os.environ.get("VERIF_KEEP_IFEXP") != "1":
                a = ast.copy_location(ast.Assign(targets=[n.targets[0]], value=n.value.body, type_comment=None), n)
                b = ast.copy_location(ast.Assign(targets=[copy_target(n.targets[0])], value=n.value.orelse, type_comment=None), n)
                def arm(x):
                    if dotted(x.value) is not None and dotted(x.value) == dotted(x.targets[0]):
                        return [ast.copy_location(ast.Pass(), n)]          # `X = X`: nothing happens on this arm
                    r_ = self.visit_Assign(x)
                    return r_ if isinstance(r_, list) else [r_]
                bb, oo = arm(a), arm(b)
                if all(isinstance(x, ast.Pass) for x in oo):
                    oo = []
                return ast.copy_location(ast.If(test=n.value.test, body=bb, orelse=oo), n)
            # `X = X + e` (X a name or attribute path not occurring in e) is `X += e`
            if len(n.targets) == 1 and isinstance(n.targets[0], (ast.Name, ast.Attribute)) and isinstance(n.value, ast.BinOp) \
                    and isinstance(n.value.op, (ast.Add, ast.Sub)) and dotted(n.targets[0]) is not None \
                    and dotted(n.value.left) == dotted(n.targets[0]):
                t = dotted(n.targets[0])
                if not any(dotted(x) == t for x in ast.walk(n.value.right)):
                    aug = ast.copy_location(ast.AugAssign(target=n.targets[0], op=n.value.op, value=n.value.right), n)
                    aug.from_binop = True       # written as `X = X + e`: rebinding, never an in-place operator (matters for objects with __iadd__)
                    return aug
            return n
        def _tail_continue(self, stmts):
            """a `continue` in tail position of a loop body does nothing: dropped (recursively through trailing if / try arms)"""
            if not stmts:
                return stmts
            last = stmts[-1]
            if isinstance(last, ast.Continue):
                return stmts[:-1] or [ast.copy_location(ast.Pass(), last)]
            if isinstance(last, ast.If):
                last.body = self._tail_continue(last.body)
                last.orelse = self._tail_continue(last.orelse)
            elif isinstance(last, ast.Try) and not last.finalbody:
                if last.orelse:
                    last.orelse = self._tail_continue(last.orelse)
                else:
                    last.body = self._tail_continue(last.body)
                for h in last.handlers:
                    h.body = self._tail_continue(h.body)
            return stmts

        def _guard_continue(self, stmts):
            """loop body  `if c: A; continue` REST   ==   `if c: A / else: REST`  (the guard-clause form of a nested if/else; the
            control-flow graph is the same, the nested form is the one the rules read)"""
            for i, s in enumerate(stmts):
                if not isinstance(s, ast.If) or i == len(stmts) - 1:
                    continue
                rest = stmts[i + 1:]
                if s.body and isinstance(s.body[-1], ast.Continue):
                    new = ast.copy_location(ast.If(test=s.test, body=s.body[:-1] or [ast.copy_location(ast.Pass(), s)],
                                                   orelse=self._guard_continue(s.orelse + rest)), s)
                    return stmts[:i] + [new]
                if s.orelse and isinstance(s.orelse[-1], ast.Continue):
                    new = ast.copy_location(ast.If(test=s.test, body=self._guard_continue(s.body + rest),
                                                   orelse=s.orelse[:-1] or [ast.copy_location(ast.Pass(), s)]), s)
                    if all(isinstance(x, ast.Pass) for x in new.orelse):
                        new.orelse = []
                    return stmts[:i] + [new]
            return stmts

        def visit_For(self, n):
            n = self.generic_visit(n)
            n.body = self._tail_continue(self._guard_continue(n.body))
            return n

        def visit_While(self, n):
            n = self.generic_visit(n)
            n.body = self._tail_continue(self._guard_continue(n.body))
            return n

        def _unswitch_defs(self, block):
            """`if c: def g(..): A / else: def g(..): B` followed by REST  ==  `if c: def g1..; REST[g1] / else: def g2..; REST[g2]`
            (tail duplication, always meaning-preserving): each copy of REST then calls exactly one local function, which the helper
            inliner can resolve.  Only when both arms define the same local function and REST is small."""
            import copy as _c
            for i, s in enumerate(block):
                if not (isinstance(s, ast.If) and s.orelse):
                    continue
                da = {x.name for x in s.body if isinstance(x, ast.FunctionDef)}
                db = {x.name for x in s.orelse if isinstance(x, ast.FunctionDef)}
                both = da & db
                rest = block[i + 1:]
                if not both or not rest or sum(1 for r in rest for _ in ast.walk(r)) > 600:
                    continue
                if any(isinstance(x, (ast.Global, ast.Nonlocal)) for r in rest + [s] for x in ast.walk(r)):
                    continue

                def arm(stmts, tag):
                    class R(ast.NodeTransformer):
                        def visit_Name(self, x):
                            if x.id in both:
                                return ast.copy_location(ast.Name(id=f"{x.id}__{tag}", ctx=x.ctx), x)
                            return x

                        def visit_FunctionDef(self, x):
                            self.generic_visit(x)
                            if x.name in both:
                                x.name = f"{x.name}__{tag}"
                            return x
                    return [R().visit(_c.deepcopy(x)) for x in stmts]
                new = ast.copy_location(ast.If(test=s.test, body=arm(s.body + rest, "a"), orelse=arm(s.orelse + rest, "b")), s)
                return block[:i] + [new]
            return block

        def _test_temps(self, fn):
            """`t = E` immediately followed by `if t:` / `if not t:` / `if t and ..:` where t is used nowhere else  ==  `if E:` ...
            (the test is evaluated at the same point; the rules read conditions on branch edges)"""
            loads, stores = {}, {}
            for x in ast.walk(fn):
                if isinstance(x, ast.Name):
                    d = loads if isinstance(x.ctx, ast.Load) else stores
                    d[x.id] = d.get(x.id, 0) + 1
            params = {a.arg for a in fn.args.posonlyargs + fn.args.args + fn.args.kwonlyargs}

            def first_operand(t):
                while True:
                    if isinstance(t, ast.UnaryOp) and isinstance(t.op, ast.Not):
                        t = t.operand
                    elif isinstance(t, ast.BoolOp):
                        t = t.values[0]
                    else:
                        return t

            def go(stmts):
                out, i = [], 0
                while i < len(stmts):
                    s = stmts[i]
                    nxt = stmts[i + 1] if i + 1 < len(stmts) else None
                    if isinstance(s, (ast.Assign, ast.AnnAssign)) and getattr(s, "value", None) is not None and isinstance(nxt, ast.If):
                        tg = s.targets[0] if isinstance(s, ast.Assign) and len(s.targets) == 1 else getattr(s, "target", None)
                        if isinstance(tg, ast.Name) and tg.id not in params and loads.get(tg.id, 0) == 1 and stores.get(tg.id, 0) == 1 \
                                and isinstance(s.value, (ast.BoolOp, ast.Compare, ast.UnaryOp, ast.Call)):
                            fo = first_operand(nxt.test)
                            if isinstance(fo, ast.Name) and fo.id == tg.id:
                                val = s.value

                                class R(ast.NodeTransformer):
                                    def visit_Name(self, x):
                                        return val if x.id == tg.id and isinstance(x.ctx, ast.Load) else x
                                nxt.test = R().visit(nxt.test)
                                i += 1
                                continue
                    for fld in ("body", "orelse", "finalbody"):
                        b = getattr(s, fld, None)
                        if isinstance(b, list) and b and isinstance(b[0], ast.stmt) and not isinstance(s, (ast.FunctionDef, ast.ClassDef)):
                            setattr(s, fld, go(b))
                    if isinstance(s, ast.Try):
                        for h in s.handlers:
                            h.body = go(h.body)
                    out.append(s)
                    i += 1
                return out
            fn.body = go(fn.body)
            return fn

        def _attr_built_lists(self, fn):
            """`obj.X = []` followed only by `obj.X.append(e)` (in loops / branches) builds the list in place in the attribute; it is
            the same as building a local list and storing it once after the last append, provided nothing can look at obj.X in
            between: obj is a local name (not self), and between the two points obj is not passed to or called on anything.  The
            local-list form is the one the expansion machinery reads (loop-built containers)."""
            body = fn.body
            for i, s in enumerate(body):
                if not (isinstance(s, ast.Assign) and len(s.targets) == 1 and isinstance(s.targets[0], ast.Attribute) and isinstance(s.targets[0].value, ast.Name)
                        and s.targets[0].value.id not in ("self", "cls")
                        and ((isinstance(s.value, ast.List) and not s.value.elts) or (isinstance(s.value, ast.Dict) and not s.value.keys) or
                             (isinstance(s.value, ast.Call) and isinstance(s.value.func, ast.Name)
                              and s.value.func.id in ("list", "dict") and not s.value.args and not s.value.keywords))):
                    continue
                is_dict_ = isinstance(s.value, ast.Dict) or (isinstance(s.value, ast.Call) and s.value.func.id == "dict")
                obj, attr = s.targets[0].value.id, s.targets[0].attr
                path = f"{obj}.{attr}"
                last, ok, appends = None, True, []
                for j in range(i + 1, len(body)):
                    for x in ast.walk(body[j]):
                        if isinstance(x, ast.Attribute) and dotted(x) == path:
                            last = j
                if last is None:
                    continue
                tmp = f"__built_{attr.lstrip('_')}"
                if any(isinstance(x, ast.Name) and x.id == tmp for x in ast.walk(fn)):
                    continue
                for j in range(i + 1, last + 1):
                    st = body[j]
                    parents = {}
                    for p_ in ast.walk(st):
                        for c_ in ast.iter_child_nodes(p_):
                            parents[id(c_)] = p_
                    for x in ast.walk(st):
                        if isinstance(x, ast.Attribute) and dotted(x) == path:
                            par = parents.get(id(x))
                            gp = parents.get(id(par)) if par is not None else None
                            ggp = parents.get(id(gp)) if gp is not None else None
                            if not is_dict_ and isinstance(par, ast.Attribute) and par.attr == "append" and isinstance(gp, ast.Call) and gp.func is par and isinstance(ggp, ast.Expr):
                                appends.append(x)
                            elif is_dict_ and isinstance(par, ast.Subscript) and par.value is x and isinstance(par.ctx, ast.Store) and isinstance(gp, ast.Assign) \
                                    and len(gp.targets) == 1 and gp.targets[0] is par:
                                appends.append(x)          # obj.X[key] = value
                            else:
                                ok = False
                        elif isinstance(x, ast.Name) and x.id == obj and isinstance(x.ctx, ast.Load):
                            par = parents.get(id(x))
                            # obj may only be the base of an attribute store / of the appended-to attribute; no call sees it
                            if not (isinstance(par, ast.Attribute) and (isinstance(par.ctx, ast.Store) or dotted(par) == path)):
                                ok = False
                        elif isinstance(x, ast.Name) and x.id == obj and isinstance(x.ctx, (ast.Store, ast.Del)):
                            ok = False
                        elif isinstance(x, (ast.Return, ast.Yield, ast.YieldFrom, ast.Raise)) and j < last:
                            pass
                if not ok or not appends:
                    continue
                for x in appends:
                    x_parent_replace = ast.Name(id=tmp, ctx=ast.Load())
                    # mutate the Attribute node in place into a Name-like access: replace fields
                    x.__class__ = ast.Name
                    x.id = tmp
                    x.ctx = ast.Load()
                    for fld in ("value", "attr"):
                        if hasattr(x, fld):
                            delattr(x, fld)
                    x._fields = ast.Name._fields
                init = ast.copy_location(ast.Assign(targets=[ast.Name(id=tmp, ctx=ast.Store())], value=s.value, type_comment=None), s)
                final = ast.copy_location(ast.Assign(targets=[s.targets[0]], value=ast.Name(id=tmp, ctx=ast.Load()), type_comment=None), body[last])
                fn.body = body[:i] + [init] + body[i + 1:last + 1] + [final] + body[last + 1:]
                ast.fix_missing_locations(fn)
                return self._attr_built_lists(fn)
            return fn

        def _sink_tail_call(self, stmts):
            """`if c: x = a / else: y = b` immediately followed by `return f(.. x .. y ..)`  ==  the return duplicated into both arms
            (tail duplication; the arms only re-bind locals).  Each copy of the call then sits on the edge that decided its
            arguments, which is where the path rules read it (e.g. a bisection that narrows one end and recurses once)."""
            import copy as _c
            out = list(stmts)
            for i in range(len(out) - 1):
                a, b = out[i], out[i + 1]
                if not (isinstance(a, ast.If) and a.orelse and isinstance(b, ast.Return) and isinstance(b.value, ast.Call) and i + 1 == len(out) - 1):
                    continue
                # only a call of the enclosing function itself (a recursive search step): other tail calls keep their single site
                fname = self._fn_names[-1] if getattr(self, "_fn_names", None) else None
                callee = b.value.func.id if isinstance(b.value.func, ast.Name) else (b.value.func.attr if isinstance(b.value.func, ast.Attribute) else None)
                if fname is None or callee != fname:
                    continue
                arms = a.body + a.orelse
                def plain_targets(x):
                    if not (isinstance(x, ast.Assign) and len(x.targets) == 1):
                        return None
                    t = x.targets[0]
                    if isinstance(t, ast.Name):
                        return [t.id]
                    if isinstance(t, (ast.Tuple, ast.List)) and all(isinstance(e_, ast.Name) for e_ in t.elts):
                        return [e_.id for e_ in t.elts]
                    return None
                if not all(plain_targets(x) is not None for x in arms):
                    continue
                bound = {nm for x in arms for nm in plain_targets(x)}
                used = {x.id for x in ast.walk(b.value) if isinstance(x, ast.Name)}
                if not (bound & used):
                    continue
                new = ast.copy_location(ast.If(test=a.test, body=a.body + [_c.deepcopy(b)], orelse=a.orelse + [_c.deepcopy(b)]), a)
                return out[:i] + [new]
            return out

        def _if_clamp(self, n):
            """`if a < x: x = a` (no else, x a local name, the body nothing but that assignment) is `x = min(x, a)`; with `>` it is max.
            Python's min(x, a) returns a exactly when `a < x`, so this is the same value also for ties and NaN."""
            if n.orelse or len(n.body) != 1 or not isinstance(n.body[0], ast.Assign) or len(n.body[0].targets) != 1:
                return None
            asg = n.body[0]
            t, v = asg.targets[0], asg.value
            # `if A and x > a: x = a`  is  `if A: x = min(x, a)`   (A evaluated first either way; with A true the clamp is unconditional)
            if isinstance(t, ast.Name) and isinstance(n.test, ast.BoolOp) and isinstance(n.test.op, ast.And) and len(n.test.values) >= 2 \
                    and isinstance(n.test.values[-1], ast.Compare) and len(n.test.values[-1].ops) == 1 \
                    and not any(isinstance(x, (ast.Call, ast.NamedExpr)) for x in ast.walk(n.test.values[-1])):
                inner = self._if_clamp(ast.copy_location(ast.If(test=n.test.values[-1], body=n.body, orelse=[]), n))
                if inner is not None:
                    rest = n.test.values[:-1]
                    outer_test = rest[0] if len(rest) == 1 else ast.BoolOp(op=ast.And(), values=rest)
                    return ast.copy_location(ast.If(test=outer_test, body=[inner], orelse=[]), n)
                return None
            if not isinstance(t, ast.Name) or not isinstance(n.test, ast.Compare) or len(n.test.ops) != 1:
                return None
            l, op, r = n.test.left, n.test.ops[0], n.test.comparators[0]
            same = lambda a, b: ast.dump(a) == ast.dump(b)
            tl = ast.Name(id=t.id, ctx=ast.Load())
            fn = None
            if same(l, v) and same(r, tl) and isinstance(op, ast.Lt):
                fn = "min"          # if a < x: x = a
            elif same(r, v) and same(l, tl) and isinstance(op, ast.Gt):
                fn = "min"          # if x > a: x = a
            elif same(l, v) and same(r, tl) and isinstance(op, ast.Gt):
                fn = "max"          # if a > x: x = a
            elif same(r, v) and same(l, tl) and isinstance(op, ast.Lt):
                fn = "max"          # if x < a: x = a
            if fn is None or any(isinstance(x, ast.Name) and x.id == t.id for x in ast.walk(v)):
                return None
            return ast.copy_location(ast.Assign(targets=[t], value=ast.Call(func=ast.Name(id=fn, ctx=ast.Load()), args=[tl, v], keywords=[]), type_comment=None), n)

        def visit_If(self, n):
            n = self.generic_visit(n)
            c_ = self._if_clamp(n)
            if c_ is not None:
                return ast.fix_missing_locations(c_)
            n.body = self._sink_tail_call(n.body)
            n.orelse = self._sink_tail_call(n.orelse)
            return n

        def visit_FunctionDef(self, n):
            n = self._test_temps(n)
            n = self._attr_built_lists(n)
            if not hasattr(self, "_fn_names"):
                self._fn_names = []
            self._fn_names.append(n.name)
            try:
                n.body = self._sink_tail_call(n.body)
                n = self.generic_visit(n)
                n.body = self._sink_tail_call(n.body)          # once more: a conditional expression has become an `if` meanwhile
            finally:
                self._fn_names.pop()
            if any(isinstance(x, ast.FunctionDef) for st in n.body for x in ast.walk(st)):
                def blocks(stmts):
                    stmts = self._unswitch_defs(stmts)
                    for st in stmts:
                        for fld in ("body", "orelse", "finalbody"):
                            b = getattr(st, fld, None)
                            if isinstance(b, list) and b and isinstance(b[0], ast.stmt) and not isinstance(st, (ast.FunctionDef, ast.ClassDef)):
                                setattr(st, fld, blocks(b))
                    return stmts
                n.body = blocks(n.body)
            return n

        def visit_Return(self, n):
            n = self.generic_visit(n)
            # `return all(P(x) for x in X)`  ==  `for x in X: if not P(x): return False` + `return True`   (any: dually); also under
            # one `not` and with `bool(...)` around it.  The loop with early return is the form the path rules read.
            v, neg = n.value, False
            while True:
                if isinstance(v, ast.UnaryOp) and isinstance(v.op, ast.Not):
                    v, neg = v.operand, not neg
                elif isinstance(v, ast.Call) and isinstance(v.func, ast.Name) and v.func.id == "bool" and len(v.args) == 1 and not v.keywords:
                    v = v.args[0]
                else:
                    break
            if isinstance(v, ast.Call) and isinstance(v.func, ast.Name) and v.func.id in ("all", "any") and len(v.args) == 1 and not v.keywords \
                    and isinstance(v.args[0], (ast.GeneratorExp, ast.ListComp)):
                comp = v.args[0]
                is_all = v.func.id == "all"
                hit = ast.Constant(value=(not is_all) != neg)        # value returned from inside the loop
                miss = ast.Constant(value=is_all != neg)             # value returned after the loop
                test = (comp.elt.operand if isinstance(comp.elt, ast.UnaryOp) and isinstance(comp.elt.op, ast.Not) else ast.UnaryOp(op=ast.Not(), operand=comp.elt)) if is_all else comp.elt
                body = [ast.If(test=test, body=[ast.Return(value=hit)], orelse=[])]
                for g in reversed(comp.generators):
                    for c in reversed(g.ifs):
                        body = [ast.If(test=c, body=body, orelse=[])]
                    body = [ast.For(target=g.target, iter=g.iter, body=body, orelse=[], type_comment=None)]
                    for x in ast.walk(body[0].target):
                        if hasattr(x, "ctx"):
                            x.ctx = ast.Store()
                out = body + [ast.Return(value=miss)]
                out = [ast.fix_missing_locations(ast.copy_location(o, n)) for o in out]
                for o in out:
                    for x in ast.walk(o):
                        if not hasattr(x, "lineno") and isinstance(x, (ast.stmt, ast.expr)):
                            ast.copy_location(x, n)
                return out
            if isinstance(n.value, ast.IfExp) and os.environ.get("VERIF_KEEP_IFEXP") != "1":
                a = ast.copy_location(ast.Return(value=n.value.body), n)
                b = ast.copy_location(ast.Return(value=n.value.orelse), n)
                return ast.copy_location(ast.If(test=n.value.test, body=[self.visit_Return(a)], orelse=[self.visit_Return(b)]), n)
            return n
    return ast.fix_missing_locations(T().visit(tree))


def copy_target(t):
    import copy as _c
    return _c.deepcopy(t)


def _descends(x, fi):
    p = x.parent
    while p is not None:
        if p is fi:
            return True
        p = p.parent
    return False


# ----------------------------------------------------------------------------
# reporting
# ----------------------------------------------------------------------------

class Check:
    """Collects rule instances ('obligations') for one property."""

    def __init__(self, prop, repo, tier="quick"):
        self.prop, self.repo, self.tier = prop, repo, tier
        self.obligations = []   # dict(rule, site, construct, verdict, detail, key)
        self.errors = []        # (rule, message)
        self.notes = []
        self.stats = {}
        self.t0 = time.time()

    def _site(self, where):
        return where.site if hasattr(where, "site") else str(where)

    def _line(self, node):
        return getattr(node, "lineno", None)

    def holds(self, rule, where, construct, detail=""):
        c = src(construct) if isinstance(construct, ast.AST) else str(construct)
        self.obligations.append(dict(rule=rule, site=self._site(where), construct=c, verdict="holds",
                                     detail=detail, line=self._line(construct) if isinstance(construct, ast.AST) else None))

    def violation(self, rule, where, construct, detail, sink=None, positive=False):
        """positive=True: the finding is a construct that *is there* (a forbidden writer, a mutation of the wrong kind) - helpers that
        could not be spliced in can hide constructs from a rule, they cannot make one appear, so such a finding stands"""
        c = src(construct) if isinstance(construct, ast.AST) else str(construct)
        qual = where.qual if hasattr(where, "qual") else (where.name if hasattr(where, "name") else str(where))
        left = getattr(self.repo, "residual", {}).get(qual)
        if left and not positive:
            # the function was restructured through helpers the normaliser could not splice in: what the rule sees is incomplete,
            # so "construct missing / different" is not evidence of a violation (not recognised != wrong, DESIGN section 1)
            self.error(rule, f"{qual} now delegates to {', '.join(left)}, which could not be inlined (generator / recursion / closure / "
                             f"helper class); the rule cannot vouch for it [{detail[:120]}]")
            return
        key = f"rule={rule} construct={qual}#{sink if sink is not None else ' '.join(c.split())[:60]}"
        self.obligations.append(dict(rule=rule, site=self._site(where), construct=c, verdict="violation",
                                     detail=detail, key=key,
                                     line=self._line(construct) if isinstance(construct, ast.AST) else None))

    def require(self, cond, rule, where, construct, ok="", bad="", sink=None, positive=False):
        if cond:
            self.holds(rule, where, construct, ok)
        else:
            self.violation(rule, where, construct, bad or ok, sink=sink, positive=positive)
        return cond

    def error(self, rule, msg):
        self.errors.append((rule, msg))

    def note(self, msg):
        self.notes.append(msg)

    def attempt(self, fn, *a, **k):
        """run one rule; an anchor / idiom it does not recognise is recorded as an analysis error and the remaining rules still run
        (a violation found by another rule must not be lost because an unrelated construct was not recognised)"""
        try:
            return fn(self, *a, **k)
        except AnalysisError as e:
            self.error(f"{self.prop}.anchor", f"{getattr(fn, '__name__', 'rule')}: {e}")
            return None

    def floor(self, rule, count, minimum, what):
        """instance floor: a for-all rule that matched fewer sites than confirmed by hand is not live."""
        if count < minimum:
            self.error(rule, f"instance floor: {what}: found {count}, confirmed floor {minimum}")

    @property
    def violations(self):
        return [o for o in self.obligations if o["verdict"] == "violation"]

    def count(self, key, n=1):
        self.stats[key] = self.stats.get(key, 0) + n

"""Command line driver: ./vcheck <Cxx> quick|thorough   |  ./vcheck --replay <file>"""
import importlib
import json
import os
import sys
import time
import traceback

from .core import Repo, Check, AnalysisError

VERIF = os.path.dirname(os.path.dirname(os.path.abspath(__file__)))
KNOWN = os.path.join(VERIF, "KNOWN_FINDINGS.txt")
OUT = os.environ.get("VERIF_OUT") or VERIF   # evidence/replay root (the seed sweep redirects it so committed evidence is not overwritten)
PROPS = [f"C{i:02d}" for i in range(1, 21)]


def load_known():
    """finding: property=Cxx rule=... construct=...  <text>   (fixed: lines suppress nothing)"""
    out = {}
    if not os.path.exists(KNOWN):
        return out
    for line in open(KNOWN, encoding="utf-8"):
        line = line.strip()
        if not line.startswith("finding:"):
            continue
        body = line[len("finding:"):].strip()
        parts = body.split("  ", 1)
        head, text = parts[0], (parts[1].strip() if len(parts) > 1 else "")
        prop = head.split()[0].split("=", 1)[1]
        key = head.split(" ", 1)[1].strip()
        out.setdefault(prop, {})[key] = text
    return out


def run_property(prop, repo, tier="quick"):
    mod = importlib.import_module(f"sa.props.{prop.lower()}")
    ck = Check(prop, repo, tier)
    ck.module = mod
    from . import rules as _rules
    before = dict(_rules.ANALYSED)
    _rules.ANALYSED.clear()
    try:
        mod.run(ck)
    except AnalysisError as e:
        ck.error(f"{prop}.anchor", str(e))
    except RecursionError as e:  # pragma: no cover
        ck.error(f"{prop}.engine", f"recursion limit: {e}")
    analysed = dict(_rules.ANALYSED)
    # generic well-formedness of the code the property's rules looked at (undefined locals, dropped returns); C10 sweeps the whole
    # package for index domains and is given the functions of its own anchors only
    try:
        from . import generic
        scope = analysed if prop != "C10" else {q: m for q, m in analysed.items() if m.endswith(("charging_network.py", "simulator.py", "interface.py", "algorithms/utils.py"))}
        generic.run(ck, prop, scope)
    except AnalysisError as e:
        ck.error(f"{prop}.generic", str(e))
    _rules.ANALYSED.clear()
    _rules.ANALYSED.update(before)
    _rules.ANALYSED.update(analysed)
    return ck


def evidence(ck, tier, wall, extra=None):
    mod = ck.module
    obs = ck.obligations
    samples = []
    seen_rules = set()
    for o in obs:
        if o["rule"] not in seen_rules or o["verdict"] == "violation":
            seen_rules.add(o["rule"])
            samples.append({k: o[k] for k in ("rule", "site", "construct", "verdict", "detail") if o.get(k) not in (None, "")})
    distinct = len({(o["rule"], o["site"], o["construct"]) for o in obs})
    cov = {
        "explanation": getattr(mod, "EXPLANATION", ""),
        "not_decided": getattr(mod, "NOT_DECIDED", ""),
        "rule": "one evaluation = one rule instance evaluated on one resolved construct of /repo's current source; "
                "distinct_nontrivial counts distinct (rule, site, construct) triples that matched a concrete construct",
        "evaluations": len(obs),
        "distinct_nontrivial": distinct,
        "obligations": len(obs),
        "discharged": sum(1 for o in obs if o["verdict"] == "holds"),
        "rules": sorted({o["rule"] for o in obs}),
        "files_parsed": len(ck.repo.sources),
        "functions_indexed": sum(len(v) for v in ck.repo.funcs.values()),
        "stats": ck.stats,
        "samples": samples[:60],
        "analysis_errors": [f"{r}: {m}" for r, m in ck.errors],
        "notes": ck.notes[:40],
        "checker_cmd": f"./vcheck {ck.prop} {tier}",
        "trusted_base": ["CPython ast parser", "sa/flow.py (CFG, dominance, reaching definitions)",
                         "frozen tables in sa/props and sa/tables.py", "documented semantics of heapq, min/max, numpy, pandas.reindex, copy.deepcopy"],
        "exhaustive": True,
    }
    if extra:
        cov.update(extra)
    return {
        "property_id": ck.prop, "tier": tier, "seed": int(os.environ.get("VERIF_SEED", "0") or 0),
        "level": "other", "coverage": cov,
        "assumptions": ["third-party libraries behave as documented", "frozen attribute/unit/synonym tables reflect the code as read"],
        "wall_s": round(wall, 3), "violations": len(ck.violations),
    }


def main(argv=None):
    argv = list(sys.argv[1:] if argv is None else argv)
    if argv and argv[0] == "--replay":
        data = json.load(open(argv[1]))
        prop, tier = data["property_id"], "quick"
        want = data.get("key")
    else:
        if len(argv) < 1 or argv[0] not in PROPS:
            print("usage: vcheck <C01..C20> [quick|thorough] | --replay <file>")
            return 2
        prop = argv[0]
        tier = argv[1] if len(argv) > 1 else os.environ.get("VERIF_TIER", "quick")
        want = None
    t0 = time.time()
    os.makedirs(os.path.join(OUT, "evidence", "replay"), exist_ok=True)
    ev_path = os.path.join(OUT, "evidence", f"{prop}.json")
    try:
        repo = Repo()
        from . import rules as _rules
        _rules.ANALYSED.clear()
        ck = run_property(prop, repo, tier)
        extra = None
        if tier == "thorough":
            from . import selfval, mutate
            analysed = dict(_rules.ANALYSED)
            extra = selfval.thorough(prop, repo, ck)
            funcs = []
            for q, mod in sorted(analysed.items()):
                cands = [f for f in repo.funcs.get(q, []) if f.module == mod]
                funcs += cands[:1]
            ms = mutate.sweep(prop, repo, funcs)
            extra.update({"mutation_" + k: v for k, v in ms.items()})
            print(f"  mutation sweep of the checker: {ms['mutants']} single-site mutants of {len(ms['functions_mutated'])} analysed functions: "
                  f"{ms['reported']} reported, {ms['unrecognised']} unrecognised (analysis-error), {ms['survived']} survived "
                  f"({ms['survivors_triaged']} triaged as equivalent/out of scope, {len(ms['survivors_untriaged'])} untriaged)")
            for u in ms["survivors_untriaged"][:400]:
                print("MUTANT-SURVIVOR", prop, u)
    except AnalysisError as e:
        print(f"ANALYSIS-ERROR property={prop} {e}")
        return 2
    except Exception:
        traceback.print_exc()
        print(f"ANALYSIS-ERROR property={prop} internal error in the checker (traceback above)")
        return 2
    wall = time.time() - t0
    ev = evidence(ck, tier, wall, extra)
    with open(ev_path, "w") as fh:
        json.dump(ev, fh, indent=1, default=str)
    known = load_known().get(prop, {})
    print(f"{prop} {tier}: {len(repo.sources)} files, {len(ck.obligations)} rule instances over "
          f"{len({o['rule'] for o in ck.obligations})} rules, {len(ck.violations)} violations, "
          f"{len(ck.errors)} analysis errors, {wall:.2f}s")
    for k, v in sorted(ck.stats.items()):
        print(f"  analysed {k}: {v}")
    for m in ck.notes:
        print("NOTE:", m)
    rc = 0
    new = []
    for v in ck.violations:
        if want is not None and v["key"] != want:
            continue
        if v["key"] in known:
            print(f"KNOWN-FINDING: property={prop} {known[v['key']]} [{v['key']}]")
        else:
            new.append(v)
    for i, v in enumerate(new):
        rp = os.path.join(OUT, "evidence", "replay", f"{prop}-{i}.json")
        with open(rp, "w") as fh:
            json.dump({"property_id": prop, "key": v["key"], **v}, fh, indent=1, default=str)
        print(f"  {v['rule']} at {v['site']}:{v.get('line')}: {v['construct']}\n      -> {v['detail']}")
        print(f"VIOLATION property={prop} replay={rp}")
        rc = 1
    if ck.errors:
        for r, m in ck.errors:
            print(f"ANALYSIS-ERROR property={prop} rule={r} {m}")
        if rc == 0:
            rc = 2
    return rc


if __name__ == "__main__":
    sys.exit(main())

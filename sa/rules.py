"""Rule building blocks shared by the property modules."""
import ast
import copy

from .core import AnalysisError, dotted, last_name, call_name, src, walk_local, const_value
from .flow import Flow, edge_facts, leaves, linear, Lin, same_expr, mentions

MUTATORS = {"append", "extend", "pop", "popitem", "remove", "clear", "update", "sort", "reverse", "insert",
            "move_to_end", "add", "discard", "setdefault", "appendleft", "popleft", "__setitem__", "__delitem__"}
HEAP_FUNCS = {"heappush", "heappop", "heapify", "heapreplace", "heappushpop"}

_flow_cache = {}
ANALYSED = {}     # qualified name -> module, for every function whose flow graph a rule asked for (thorough tier: what to mutate)


def flow_of(finfo, track_self=False):
    """Flow (CFG + reaching definitions) of a FuncInfo, cached per AST node."""
    k = (id(finfo.node), track_self)
    if getattr(finfo, "qual", None):
        ANALYSED[finfo.qual] = finfo.module
    if k not in _flow_cache:
        if len(_flow_cache) > 4000:
            _flow_cache.clear()
        _flow_cache[k] = (finfo.node, Flow(finfo, track_self=track_self))
    return _flow_cache[k][1]


# ----------------------------------------------------------------------------
# helper inlining (ordering rules see through "extract method")
# ----------------------------------------------------------------------------

# methods that exist on the pinned tree and are anchors of rules themselves: never inlined, so that rules can
# name them.  A helper introduced by a later "extract method" refactoring is by definition not in this table.
KEEP_METHODS = {"_process_event", "_store_actual_charging_rates", "_update_schedules", "_print", "run", "step",
                "get_active_evs", "_update_info_store", "plugin", "unplug", "post_charging_update", "register_evse",
                "add_constraint", "remove_constraint", "update_constraint", "constraint_current", "is_feasible",
                "update_pilots", "add_event", "add_events", "get_event", "get_current_events", "charge", "_charge",
                "_charge_stepwise", "reset", "set_pilot", "_valid_rate", "register_interface", "schedule",
                "run_preprocessing", "run_postprocessing", "sorting_algorithm", "round_robin", "max_feasible_rate",
                "discrete_max_feasible_rate", "get_maximum_rates", "_validate", "update_station_id"}


def inline_helpers(repo, finfo, depth=2):
    """Return a FuncInfo-like object whose body has statement-level calls
    ``self.m(args)`` to same-class methods (or module functions) replaced by the
    callee's body (parameters substituted), recursively up to `depth`.  Only
    calls whose callee has no value-returning ``return`` are inlined."""
    from .core import FuncInfo

    def callee_of(call):
        f = call.func
        if isinstance(f, ast.Attribute) and isinstance(f.value, ast.Name) and f.value.id == "self" and finfo.cls is not None:
            if f.attr in KEEP_METHODS:
                return None, False
            return repo.method(finfo.cls, f.attr, optional=True), True
        return None, False

    def inl(stmts, d):
        out = []
        for s in stmts:
            if isinstance(s, ast.Expr) and isinstance(s.value, ast.Call) and d > 0:
                cal, is_m = callee_of(s.value)
                if cal is not None and cal.node is not finfo.node and not _returns_value(cal.node) and not cal.is_property():
                    params = cal.params[1:] if is_m else cal.params
                    mapping = {}
                    ok = len(s.value.args) <= len(params) and all(k.arg in params for k in s.value.keywords)
                    if ok:
                        for p, a in zip(params, s.value.args):
                            mapping[p] = a
                        for k in s.value.keywords:
                            mapping[k.arg] = k.value
                        for p, dflt in cal.defaults().items():
                            mapping.setdefault(p, dflt)
                        if set(params) <= set(mapping):
                            body = [_subst(copy.deepcopy(b), mapping) for b in cal.node.body
                                    if not (isinstance(b, ast.Expr) and isinstance(b.value, ast.Constant))]
                            body = [b for b in body if not (isinstance(b, ast.Return) and b.value is None)]
                            out.extend(inl(body, d - 1))
                            continue
            s2 = s
            for fld in ("body", "orelse", "finalbody"):
                if hasattr(s, fld) and isinstance(getattr(s, fld), list) and getattr(s, fld) and isinstance(getattr(s, fld)[0], ast.stmt):
                    if s2 is s:
                        s2 = copy.copy(s)
                    setattr(s2, fld, inl(getattr(s, fld), d))
            if isinstance(s, ast.Try):
                if s2 is s:
                    s2 = copy.copy(s)
                hs = []
                for h in s.handlers:
                    h2 = copy.copy(h)
                    h2.body = inl(h.body, d)
                    hs.append(h2)
                s2.handlers = hs
            out.append(s2)
        return out

    new = copy.copy(finfo.node)
    new.body = inl(finfo.node.body, depth)
    fi = FuncInfo(new, finfo.qual, finfo.module, finfo.cls, finfo.parent)
    return fi


def _returns_value(fn):
    for n in walk_local(fn):
        if isinstance(n, ast.Return) and n.value is not None and not (isinstance(n.value, ast.Constant) and n.value.value is None):
            return True
        if isinstance(n, (ast.Yield, ast.YieldFrom)):
            return True
    return False


def _subst(node, mapping):
    class T(ast.NodeTransformer):
        def visit_Name(self, n):
            if n.id in mapping and isinstance(n.ctx, ast.Load):
                return copy.deepcopy(mapping[n.id])
            return n
    return T().visit(node)


# ----------------------------------------------------------------------------
# calls and argument binding
# ----------------------------------------------------------------------------

def calls_in(flow, name=None, pred=None):
    """[(cfg node, Call ast)] for calls in the function (not nested defs) whose terminal callee name is `name`."""
    out = []
    for n in flow.cfg.nodes:
        for e in flow.cfg.node_exprs(n):
            for sub in [e] + list(walk_local(e)):
                if isinstance(sub, ast.Call) and (name is None or call_name(sub) == name) and (pred is None or pred(sub)):
                    out.append((n, sub))
    # stable order, unique
    seen, uniq = set(), []
    for n, c in out:
        if id(c) not in seen:
            seen.add(id(c))
            uniq.append((n, c))
    return sorted(uniq, key=lambda x: (getattr(x[1], "lineno", 0), getattr(x[1], "col_offset", 0)))


def bind_args(call, callee, method=None):
    """{param: arg expr} binding positional and keyword arguments to the callee's parameter names."""
    params = callee.params
    if method is None:
        method = callee.cls is not None and "staticmethod" not in callee.decorators()
    if method and params and params[0] in ("self", "cls"):
        params = params[1:]
    out = {}
    for p, a in zip(params, call.args):
        if isinstance(a, ast.Starred):
            raise AnalysisError(f"starred argument in {src(call)}")
        out[p] = a
    for k in call.keywords:
        if k.arg is None:
            raise AnalysisError(f"**kwargs in {src(call)}")
        out[k.arg] = k.value
    # an argument that spells out the parameter's literal default is the same call as leaving it out
    dfl = callee.defaults()
    for p in list(out):
        d = dfl.get(p)
        if d is not None and isinstance(out[p], ast.Constant) and isinstance(d, ast.Constant) and type(out[p].value) is type(d.value) and out[p].value == d.value:
            del out[p]
    return out


def norm_self(s):
    """canonical access path: properties that merely return a private attribute are folded by the caller's table."""
    return s


import re

SYN = [  # read-only accessor -> underlying attribute (confirmed by reading: each is `return self._x`)
    (re.compile(r"\bself\.iteration\b"), "self._iteration"),
    (re.compile(r"\b_simulator\.iteration\b"), "_simulator._iteration"),
    (re.compile(r"\bsim\.iteration\b"), "sim._iteration"),
    # ChargingNetwork.station_ids is `list(self._EVSEs.keys())` (confirmed by reading; C10 checks that nothing re-orders _EVSEs): walking
    # the EVSE mapping is walking the stations in registration order
    (re.compile(r"__(elem|val)__\(self\._EVSEs\.values\(\)\)|__val__\(self\._EVSEs\)|__item__\(__elem__\(self\._EVSEs\.items\(\)\), 1\)"), "self._EVSEs[__elem__(self.station_ids)]"),
    (re.compile(r"__key__\(self\._EVSEs\)|__elem__\(self\._EVSEs(\.keys\(\))?\)|__item__\(__elem__\(self\._EVSEs\.items\(\)\), 0\)"), "__elem__(self.station_ids)"),
    (re.compile(r"__idx__\(self\._EVSEs(\.values\(\)|\.keys\(\)|\.items\(\))?\)"), "__idx__(self.station_ids)"),
    (re.compile(r"self\._EVSEs\[__elem__\(self\.station_ids\)\]\.station_id\b"), "__elem__(self.station_ids)"),
    # a component taken by unpacking is the component taken by index:  `ts, ev = q[0]` -> ts is q[0][0]
    (re.compile(r"__item__\(((?:[A-Za-z_]\w*)(?:\.\w+|\[[^\[\]()]*\])*), (\d+)\)"), r"\1[\2]"),
]


def canon(expr_or_str):
    s = expr_or_str if isinstance(expr_or_str, str) else " ".join(ast.unparse(expr_or_str).split())
    for a, b in SYN:
        s = a.sub(b, s)
    return s


STATION_ORDERED = ("self.station_ids", "self._EVSEs", "self._EVSEs.keys()", "self._EVSEs.values()", "self._EVSEs.items()", "self._voltages",
                   "self._phase_angles", "ids")


def visits_all_stations(itx):
    """the (expanded) iteration expression walks over every registered station in registration order, unfiltered:
    X, enumerate(X), range(len(X)), zip(X, Y..) for X among the station-ordered containers (list()/tuple() wrappers ignored)"""
    e = itx
    while isinstance(e, ast.Call) and call_name(e) in ("list", "tuple", "iter") and len(e.args) == 1 and not e.keywords:
        e = e.args[0]
    cn = call_name(e)
    if cn == "enumerate" and e.args:
        return visits_all_stations(e.args[0])
    if cn == "range" and len(e.args) == 1 and call_name(e.args[0]) == "len" and e.args[0].args:
        return visits_all_stations(e.args[0].args[0])
    if cn == "zip" and e.args:
        return all(visits_all_stations(a) for a in e.args)
    s_ = " ".join(ast.unparse(e).split())
    return s_ in STATION_ORDERED or s_ in ("self.network.station_ids", "infrastructure.station_ids")


def is_station_pos(s_):
    """canonical string denotes the position of the current station in registration order"""
    return canon(s_) in ("__idx__(self.station_ids)", "__idx__(self._voltages)", "__idx__(self._phase_angles)", "__idx__(ids)")


def is_evse_at(recv_s, idx_s=None):
    """canonical string denotes the EVSE of the current station of a station-order iteration (optionally: at position idx_s)"""
    r = canon(recv_s)
    if r == "self._EVSEs[__elem__(self.station_ids)]":
        return True
    if idx_s is not None and r in (f"self._EVSEs[self.station_ids[{canon(idx_s)}]]", f"self._EVSEs[ids[{canon(idx_s)}]]"):
        return True
    return False


def anchored_fn(repo, qual, locals_=(), nested=False, loops_over=None):
    """the anchor function `qual`, provided it still has the working variables the rules are phrased over (a rule that tracks "the
    schedule array" by the name it has on the pinned tree cannot follow a rewrite that keeps the values in differently named or
    differently shaped locals: that is `not recognised`, an ANALYSIS-ERROR, never a violation)"""
    f = repo.fn(qual)
    assigned = {n.id for n in walk_local(f.node) if isinstance(n, ast.Name) and isinstance(n.ctx, ast.Store)}
    missing = [x for x in locals_ if x not in assigned]
    if missing:
        raise AnalysisError(f"{qual} was restructured: the working variable(s) {missing} the rules follow no longer exist")
    def stores_schedule(loop):
        return any(isinstance(x, ast.Subscript) and isinstance(x.ctx, ast.Store) and isinstance(x.value, ast.Name) and x.value.id in locals_ for x in ast.walk(loop))
    if loops_over and not all(any(isinstance(n, ast.For) and isinstance(n.iter, ast.Name) and n.iter.id == lv and isinstance(n.target, ast.Name) and stores_schedule(n)
                                  for n in walk_local(f.node)) for lv in loops_over):
        raise AnalysisError(f"{qual} was restructured: no `for <session> in {'/'.join(loops_over)}` loop (the rules follow the session variable of that loop)")
    if nested and not any(isinstance(n, (ast.FunctionDef, ast.Lambda)) for n in walk_local(f.node)):
        raise AnalysisError(f"{qual} was restructured: the nested search closure the rules follow no longer exists")
    return f


def lin(flow, expr, node):
    return linear(flow.expand(expr, node), norm=canon)


def is_lin(flow, expr, node, terms, const=0):
    """expanded expr equals sum(terms)+const exactly (linear-form comparison)."""
    return lin(flow, expr, node) == Lin({canon(k): v for k, v in terms.items()}, const)


# ----------------------------------------------------------------------------
# stores
# ----------------------------------------------------------------------------

def store_targets(stmt):
    """[(kind, attr_path, target_ast)] for stores performed by a simple statement:
    kind in assign/aug/del/mutcall/subassign."""
    out = []

    def base_path(t):
        # attribute path being written: self.x  /  self.x[...]  -> 'self.x'
        while isinstance(t, ast.Subscript):
            t = t.value
        return dotted(t)

    if isinstance(stmt, ast.Assign):
        tg = []
        for t in stmt.targets:
            tg += list(t.elts) if isinstance(t, (ast.Tuple, ast.List)) else [t]
        for t in tg:
            p = base_path(t)
            if p and "." in p:
                out.append(("subassign" if isinstance(t, ast.Subscript) else "assign", p, t))
    elif isinstance(stmt, ast.AnnAssign) and stmt.value is not None:
        p = base_path(stmt.target)
        if p and "." in p:
            out.append(("assign", p, stmt.target))
    elif isinstance(stmt, ast.AugAssign):
        p = base_path(stmt.target)
        if p and "." in p:
            out.append(("aug", p, stmt.target))
    elif isinstance(stmt, ast.Delete):
        for t in stmt.targets:
            p = base_path(t)
            if p and "." in p:
                out.append(("del", p, t))
    return out


def mutating_calls(expr):
    """[(attr_path, method, call)] for calls like self.x.append(..), heapq.heappush(self.x, ..), setattr(obj, ..)."""
    out = []
    for c in [expr] + list(walk_local(expr)):
        if not isinstance(c, ast.Call):
            continue
        nm = call_name(c)
        if isinstance(c.func, ast.Attribute) and nm in MUTATORS:
            p = dotted(c.func.value)
            if p is None and isinstance(c.func.value, ast.Subscript):
                b = c.func.value
                while isinstance(b, ast.Subscript):
                    b = b.value
                p = dotted(b)
            if p:
                out.append((p, nm, c))
        if nm in HEAP_FUNCS and c.args:
            p = dotted(c.args[0])
            if p:
                out.append((p, nm, c))
        if nm == "setattr" and isinstance(c.func, ast.Name) and len(c.args) >= 2:
            p = dotted(c.args[0])
            if p:
                try:
                    out.append((f"{p}.{const_value(c.args[1])}", "setattr", c))
                except (ValueError, TypeError):
                    out.append((f"{p}.*", "setattr", c))
    return out


def state_writes(flow, roots=("self",)):
    """[(node, kind, path, ast)] all stores/mutations of object state rooted at `roots` in a function."""
    out = []
    for n in flow.cfg.nodes:
        if n.kind == "stmt":
            for kind, p, t in store_targets(n.stmt):
                if p.split(".")[0] in roots:
                    out.append((n, kind, p, t))
        for e in flow.cfg.node_exprs(n):
            for p, m, c in mutating_calls(e):
                if p.split(".")[0] in roots:
                    out.append((n, "mut:" + m, p, c))
    return out


def who_writes(repo, attr, include_tests=False):
    """package-wide: [(FuncInfo, kind, path, ast)] for stores/mutations whose path ends with .attr"""
    out = []
    for f in repo.all_functions():
        for n in walk_local(f.node):
            if isinstance(n, ast.stmt):
                for kind, p, t in store_targets(n):
                    if p.endswith("." + attr):
                        out.append((f, kind, p, t))
            if isinstance(n, ast.Call):
                for p, m, c in mutating_calls(n):
                    if c is n and (p.endswith("." + attr) or p == attr):
                        out.append((f, "mut:" + m, p, c))
    return out


def who_calls(repo, name):
    """package-wide: [(FuncInfo or None, Call)] for calls whose terminal callee name is `name`."""
    out = []
    for f in repo.all_functions():
        for n in walk_local(f.node):
            if isinstance(n, ast.Call) and call_name(n) == name:
                out.append((f, n))
    # module level
    for rel, tree in repo.trees.items():
        for n in walk_local(tree):
            if isinstance(n, ast.Call) and call_name(n) == name:
                out.append((None, n))
    seen, uniq = set(), []
    for f, c in out:
        if id(c) not in seen:
            seen.add(id(c))
            uniq.append((f, c))
    return uniq


# ----------------------------------------------------------------------------
# guards
# ----------------------------------------------------------------------------

def _edge_clause(expr, truth):
    """the disjunction known on the `truth` edge of a test that is not a conjunction of atoms there: `a and b` false is (not a) or
    (not b); `a or b` true is a or b.  [(atom, truth)] with atomic literals only, or None."""
    e, t = expr, truth
    while True:
        if isinstance(e, ast.UnaryOp) and isinstance(e.op, ast.Not):
            e, t = e.operand, not t
        elif isinstance(e, ast.Call) and isinstance(e.func, ast.Name) and e.func.id == "bool" and len(e.args) == 1 and not e.keywords:
            e = e.args[0]
        else:
            break
    if not (isinstance(e, ast.BoolOp) and len(e.values) > 1 and ((isinstance(e.op, ast.And) and not t) or (isinstance(e.op, ast.Or) and t))):
        return None
    lits = []
    for v in e.values:
        fs = edge_facts(v, t)
        if len(fs) != 1:
            return None
        lits.append(fs[0])
    return lits


def facts_at(flow, node):
    """[(atom_ast, truth)] facts holding at node by dominance of branch edges; a disjunction known on an edge (`if a and b:` not taken)
    contributes the one literal that is left once the others are refuted by facts from other edges (`elif a:` taken -> not b)."""
    out, where, clauses = [], [], []
    for t, lab in flow.cfg.edges_dominating(node):
        if t.kind == "test":
            fs = edge_facts(t.expr, lab)
            out += fs
            where += [t] * len(fs)
            cl = _edge_clause(t.expr, lab)
            if cl:
                clauses.append((t, cl))
    if clauses:
        key = lambda a: " ".join(ast.unparse(a).split())

        def same_values(a, t1, t2):
            for x in ast.walk(a):
                if isinstance(x, ast.Name) and flow.defs_at(t1, x.id) != flow.defs_at(t2, x.id):
                    return False
            return True
        changed = True
        while changed:
            changed = False
            for tc, cl in list(clauses):
                left = []
                for a, tr in cl:
                    k = key(a)
                    if any(key(b) == k and tb != tr and same_values(a, tc, tw) for (b, tb), tw in zip(out, where)):
                        continue
                    left.append((a, tr))
                if len(left) == 1:
                    out.append(left[0]); where.append(tc)
                    clauses.remove((tc, cl))
                    changed = True
    return out


def edge_nodes_with(flow, pred):
    """edge nodes on which some fact (atom, truth) satisfies pred(atom, truth)."""
    out = []
    for n in flow.cfg.nodes:
        if n.kind == "edge" and n.test.kind == "test":
            if any(pred(a, t) for a, t in edge_facts(n.test.expr, n.label)):
                out.append(n)
    return out


def is_none_test(atom, truth, path_pred):
    """atom/truth pair says  <path> is None  (returns True/False for is-None / is-not-None) or None if unrelated."""
    if isinstance(atom, ast.Compare) and len(atom.ops) == 1 and isinstance(atom.comparators[0], ast.Constant) \
            and atom.comparators[0].value is None and isinstance(atom.ops[0], (ast.Is, ast.IsNot, ast.Eq, ast.NotEq)):
        if path_pred(atom.left):
            isnone = isinstance(atom.ops[0], (ast.Is, ast.Eq))
            return isnone == truth
    return None


def region(flow, edge_node):
    """nodes dominated by an edge node (the branch it opens)."""
    return {n for n in flow.cfg.nodes if flow.cfg.dominates(edge_node, n)}


def always_before_exit(flow, start, via_nodes):
    """every path from `start` to the function's normal exit passes through one of via_nodes."""
    return flow.cfg.exit not in flow.cfg.reach(start, avoid=set(via_nodes))


def in_loop_within(flow, node, region_nodes):
    """node lies on a cycle that stays inside region_nodes."""
    outside = set(flow.cfg.nodes) - set(region_nodes)
    return node in flow.cfg.reach_from_succ(node, avoid=outside)


def cmp_norm(atom, truth=True):
    """normalise a comparison atom to (lhs - rhs as source strings, op) with op in {'<','<=','==','!='}
    such that the relation reads  lhs OP rhs; '>' and '>=' are flipped; negation applied."""
    if not (isinstance(atom, ast.Compare) and len(atom.ops) == 1):
        return None
    op = type(atom.ops[0])
    l, r = atom.left, atom.comparators[0]
    neg = {ast.Lt: ast.GtE, ast.LtE: ast.Gt, ast.Gt: ast.LtE, ast.GtE: ast.Lt, ast.Eq: ast.NotEq, ast.NotEq: ast.Eq,
           ast.Is: ast.IsNot, ast.IsNot: ast.Is, ast.In: ast.NotIn, ast.NotIn: ast.In}
    if not truth:
        op = neg[op]
    if op in (ast.Gt, ast.GtE):
        l, r = r, l
        op = ast.Lt if op is ast.Gt else ast.LtE
    sym = {ast.Lt: "<", ast.LtE: "<=", ast.Eq: "==", ast.NotEq: "!=", ast.Is: "is", ast.IsNot: "is not",
           ast.In: "in", ast.NotIn: "not in"}[op]
    return l, sym, r


# ----------------------------------------------------------------------------
# list construction, property resolution
# ----------------------------------------------------------------------------

WRAPPERS = {"array", "asarray", "list", "tuple"}


def collect_list(fl, value, node, depth=4):
    """Elements of a list-valued expression as [(expanded element, expanded iteration source or None)];
    understands literals, single-generator comprehensions, `L = []` + `L.append(x)` in loops, and
    np.array/list/tuple wrappers.  None = construction not recognised.
    An element that was chosen by an if/else before it was appended (`if c: x = a / else: x = b; L.append(x)`) comes back as the
    conditional expression `a if c else b` it computes (gated expansion)."""
    old = getattr(fl, "gated", False)
    fl.gated = True
    try:
        res = _collect_list(fl, value, node, depth)
    finally:
        fl.gated = old
    if res is None:
        return None

    class G(ast.NodeTransformer):
        def visit_Call(self, n):
            n = self.generic_visit(n)
            if call_name(n) == "__gamma__" and len(n.args) == 3:
                return ast.copy_location(ast.IfExp(test=n.args[0], body=n.args[1], orelse=n.args[2]), n)
            return n
    return [(G().visit(copy.deepcopy(e)), it) for e, it in res]


def _collect_list(fl, value, node, depth=4):
    v = value
    while isinstance(v, ast.Call) and call_name(v) in WRAPPERS and v.args:
        v = v.args[0]
    if isinstance(v, (ast.List, ast.Tuple)):
        return [(fl.expand(e, node), None) for e in v.elts]
    if isinstance(v, (ast.ListComp, ast.GeneratorExp)) and len(v.generators) == 1:
        from .flow import fuse_comprehension
        fused = fuse_comprehension(fl._expand_comp(copy.deepcopy(v), node, 8, ()))
        if len(fused.generators) == 1:
            g = fused.generators[0]
            mapping = {}

            def bind2(t, path):
                if isinstance(t, ast.Name):
                    mapping[t.id] = fl._iter_value_expanded(g.iter, path, 8, ())
                elif isinstance(t, (ast.Tuple, ast.List)):
                    for i, x in enumerate(t.elts):
                        bind2(x, path + (i,))
            bind2(g.target, ())
            it = iter_base(g.iter)
            from .flow import _subst_names
            elt = _subst_names(copy.deepcopy(fused.elt), mapping)
            return [(elt, it)] if not g.ifs else [(elt, ast.Call(func=ast.Name(id="__filtered__", ctx=ast.Load()), args=[it], keywords=[]))]
        g = v.generators[0]
        mapping = {}

        def bind(t, path):
            if isinstance(t, ast.Name):
                mapping[t.id] = fl._iter_value(g.iter, path, node, 8, ())
            elif isinstance(t, (ast.Tuple, ast.List)):
                for i, x in enumerate(t.elts):
                    bind(x, path + (i,))
        bind(g.target, ())
        it = iter_base(fl.expand(g.iter, node))
        elt = _subst(copy.deepcopy(fl.expand(v, node).elt), mapping)
        return [(elt, it)] if not g.ifs else [(elt, ast.Call(func=ast.Name(id="__filtered__", ctx=ast.Load()), args=[it], keywords=[]))]
    if isinstance(v, ast.Name) and depth > 0:
        defs = fl.defs_at(node, v.id)
        if len(defs) != 1:
            return None
        d = next(iter(defs))
        how = fl.def_how(d, v.id)
        if how[0] != "assign":
            return None
        init = how[1]
        built = fl._loop_built(v.id, d, node)
        if built is not None and isinstance(built, ast.ListComp):
            return _collect_list(fl, built, node, depth - 1)
        if isinstance(init, ast.List) and not init.elts:
            out = []
            for n in fl.cfg.nodes:
                for e in fl.cfg.node_exprs(n):
                    for p, m, c in mutating_calls(e):
                        if p == v.id and fl.defs_at(n, v.id) == defs:
                            if m != "append" or len(c.args) != 1:
                                return None
                            loops = [t for t, lab in fl.cfg.edges_dominating(n) if t.kind == "for" and lab is True]
                            it = None
                            if loops:
                                it = iter_base(fl.expand(loops[-1].stmt.iter, loops[-1]))
                                conds = [t for t, lab in fl.cfg.edges_dominating(n) if t.kind == "test" and fl.cfg.dominates(loops[-1], t)]
                                if conds:
                                    it = ast.Call(func=ast.Name(id="__filtered__", ctx=ast.Load()), args=[it], keywords=[])
                            out.append((fl.expand(c.args[0], n), it))
            return out
        return _collect_list(fl, init, d, depth - 1)
    return None


def iter_base(itx):
    """the container an iteration expression walks over (strips enumerate / range(len()) / items / values / keys)."""
    cn = call_name(itx)
    if cn == "enumerate" and itx.args:
        return itx.args[0]
    if cn == "range" and len(itx.args) == 1 and call_name(itx.args[0]) == "len":
        return itx.args[0].args[0]
    if cn in ("items", "values", "keys") and isinstance(itx.func, ast.Attribute) and not itx.args:
        return itx.func.value
    return itx


def elem_symbols(e):
    """canonical strings of the synthetic element/index symbols (__elem__/__val__/__key__/__idx__) occurring in e."""
    return {canon(c) for c in ast.walk(e) if isinstance(c, ast.Call) and call_name(c) in ("__elem__", "__val__", "__key__", "__idx__")}


def resolve_prop(repo, cls, s):
    """replace self.<property> by the private attribute it returns when the property body is `return self._x`."""
    def rep(m):
        name = m.group(1)
        meth = repo.method(cls, name, optional=True)
        if meth is not None and meth.is_property():
            body = [b for b in meth.node.body if not (isinstance(b, ast.Expr) and isinstance(b.value, ast.Constant))]
            if len(body) == 1 and isinstance(body[0], ast.Return) and body[0].value is not None:
                d = dotted(body[0].value)
                if d and d.startswith("self."):
                    return d
        return m.group(0)
    return re.sub(r"\bself\.(\w+)\b(?!\()", rep, s)


def alts_deep(e, limit=32):
    """distribute nested __phi__(...) nodes: list of phi-free alternatives of an expanded expression."""
    out, todo = [], [e]
    while todo and len(out) + len(todo) <= limit * 4:
        x = todo.pop()
        phi = None
        for c in _preorder(x):          # same order as _replace_first_phi (NodeTransformer: pre-order, field order)
            if isinstance(c, ast.Call) and call_name(c) == "__phi__":
                phi = c
                break
        if phi is None:
            out.append(x)
            continue
        for a in phi.args:
            todo.append(_replace_first_phi(x, a))
    uniq, seen = [], set()
    for a in out:
        k = ast.dump(a)
        if k not in seen:
            seen.add(k)
            uniq.append(a)
    return uniq


def _preorder(n):
    yield n
    for c in ast.iter_child_nodes(n):
        yield from _preorder(c)


def _replace_first_phi(x, repl):
    done = [False]

    class T(ast.NodeTransformer):
        def visit_Call(self, n):
            if not done[0] and call_name(n) == "__phi__":
                done[0] = True
                return copy.deepcopy(repl)
            return self.generic_visit(n)
    return T().visit(copy.deepcopy(x))


# ----------------------------------------------------------------------------
# specialisation of an expression under an assignment of boolean flags (mode analysis)
# ----------------------------------------------------------------------------

_NONNULL_CALLS = {"deg2rad", "array", "asarray", "zeros", "ones", "abs", "cos", "sin", "exp", "stack", "norm", "list", "dict", "tuple", "len",
                  "copy", "deepcopy", "minimum", "maximum", "append", "arange", "sorted"}


def specialise(expr, env):
    """fold `expr` with the names in env ({name: python constant}) replaced by constants: conditional expressions, `not`,
    and/or, `is None` tests on values that are syntactically None / certainly not None are decided.  Returns a new AST."""

    def definitely_not_none(e):
        if isinstance(e, ast.IfExp):
            return definitely_not_none(e.body) and definitely_not_none(e.orelse)
        if isinstance(e, ast.Constant):
            return e.value is not None
        if isinstance(e, (ast.BinOp, ast.List, ast.Tuple, ast.Dict, ast.ListComp, ast.Compare, ast.JoinedStr)):
            return True
        if isinstance(e, ast.Call):
            return call_name(e) in _NONNULL_CALLS
        return False

    exprkeys = {k: v for k, v in env.items() if not k.isidentifier()}

    class T(ast.NodeTransformer):
        def generic_visit(self, n):
            if exprkeys and isinstance(n, ast.expr):
                try:
                    k = " ".join(ast.unparse(n).split())
                except Exception:
                    k = None
                if k in exprkeys:
                    return ast.Constant(value=exprkeys[k])
            return super().generic_visit(n)

        def visit_Name(self, n):
            if isinstance(n.ctx, ast.Load) and n.id in env:
                return ast.Constant(value=env[n.id])
            return n

        def visit_IfExp(self, n):
            r_ = self.generic_visit(n)
            if r_ is not n:
                return r_
            if isinstance(n.test, ast.Constant):
                return n.body if n.test.value else n.orelse
            return n

        def visit_JoinedStr(self, n):
            n = self.generic_visit(n)
            # f"{'>='} x": a formatted constant (no conversion / format spec) is part of the literal text
            out = []
            for v in n.values:
                if isinstance(v, ast.FormattedValue) and isinstance(v.value, ast.Constant) and isinstance(v.value.value, (str, int)) and not isinstance(v.value.value, bool) \
                        and v.conversion == -1 and v.format_spec is None:
                    v = ast.Constant(value=str(v.value.value))
                if isinstance(v, ast.Constant) and out and isinstance(out[-1], ast.Constant):
                    out[-1] = ast.Constant(value=str(out[-1].value) + str(v.value))
                else:
                    out.append(v)
            n.values = out
            return n

        def visit_Call(self, n):
            r_ = self.generic_visit(n)
            if r_ is not n:
                return r_
            if call_name(n) == "__gamma__" and len(n.args) == 3:
                t = n.args[0]
                if isinstance(t, ast.Constant):
                    return n.args[1] if t.value else n.args[2]
                return ast.Call(func=ast.Name(id="__phi__", ctx=ast.Load()), args=[n.args[1], n.args[2]], keywords=[])
            return n

        def visit_UnaryOp(self, n):
            r_ = self.generic_visit(n)
            if r_ is not n:
                return r_
            if isinstance(n.op, ast.Not) and isinstance(n.operand, ast.Constant):
                return ast.Constant(value=not n.operand.value)
            return n

        def visit_BoolOp(self, n):
            r_ = self.generic_visit(n)
            if r_ is not n:
                return r_
            vals = []
            for v in n.values:
                if isinstance(v, ast.Constant) and isinstance(v.value, bool):
                    if isinstance(n.op, ast.And) and not v.value:
                        return ast.Constant(value=False)
                    if isinstance(n.op, ast.Or) and v.value:
                        return ast.Constant(value=True)
                    continue
                vals.append(v)
            if not vals:
                return ast.Constant(value=isinstance(n.op, ast.And))
            if len(vals) == 1:
                return vals[0]
            n.values = vals
            return n

        def visit_Compare(self, n):
            r_ = self.generic_visit(n)
            if r_ is not n:
                return r_
            if len(n.ops) == 1 and isinstance(n.ops[0], (ast.Is, ast.IsNot)) and isinstance(n.comparators[0], ast.Constant) and n.comparators[0].value is None:
                l = n.left
                if isinstance(l, ast.Constant) and l.value is None:
                    return ast.Constant(value=isinstance(n.ops[0], ast.Is))
                if definitely_not_none(l):
                    return ast.Constant(value=isinstance(n.ops[0], ast.IsNot))
            # comparison of numeric literals
            vals = [n.left] + list(n.comparators)
            if all(isinstance(v, ast.Constant) and isinstance(v.value, (int, float)) and not isinstance(v.value, bool) for v in vals):
                ops = {ast.Lt: lambda a, b: a < b, ast.LtE: lambda a, b: a <= b, ast.Gt: lambda a, b: a > b, ast.GtE: lambda a, b: a >= b,
                       ast.Eq: lambda a, b: a == b, ast.NotEq: lambda a, b: a != b}
                if all(type(o) in ops for o in n.ops):
                    res = all(ops[type(o)](a.value, b.value) for a, o, b in zip(vals, n.ops, vals[1:]))
                    return ast.Constant(value=res)
            return n
    return T().visit(copy.deepcopy(expr))


def gexpand(flow, expr, node, depth=None):
    """def-use expansion with gated phis (a variable defined on both edges of a test becomes __gamma__(test, a, b))"""
    old = getattr(flow, "gated", False)
    flow.gated = True
    try:
        return flow.expand(expr, node) if depth is None else flow.expand(expr, node, depth=depth)
    finally:
        flow.gated = old


def fold_compare(expr, decide):
    """replace every comparison for which decide(lhs, op, rhs) (normalised to < / <= / == / !=, see cmp_norm) returns a bool by
    that constant, then fold conditionals; decide returns None for comparisons it does not know"""
    class T(ast.NodeTransformer):
        def visit_Compare(self, n):
            self.generic_visit(n)
            c = cmp_norm(n, True)
            if c:
                v = decide(canon(c[0]), c[1], canon(c[2]))
                if v is not None:
                    return ast.Constant(value=bool(v))
            return n
    import copy
    return specialise(T().visit(copy.deepcopy(expr)), {})


def path_feasible(flow, node, env):
    """False if a fact on a branch edge dominating `node` is contradicted under env (after expansion and folding)"""
    for a, t in facts_at(flow, node):
        v = specialise(flow.expand(a, node), env)
        if isinstance(v, ast.Constant) and isinstance(v.value, bool) and v.value != t:
            return False
    return True


def emptiness(flow, node, container):
    """what the branch edges dominating `node` say about the emptiness of `container` (canonical *expanded* string):
    'nonempty', 'empty' or None.  Understands len(x) > 0, len(x) != 0, len(x) >= 1, x (truthiness), not x, len(x) == 0."""
    verdict = None
    for a, t in facts_at(flow, node):
        e = uncopy_deep(flow.expand(a, node))          # a copy is empty exactly when the original is
        s = canon(e)
        if s == container or s == f"len({container})":
            verdict = "nonempty" if t else "empty"
            continue
        c = cmp_norm(e, t)
        if not c:
            continue
        l, op, r = canon(c[0]), c[1], canon(c[2])
        ln = f"len({container})"
        if {l, r} == {ln, "0"}:
            if op == "!=" or (op == "<" and l == "0"):
                verdict = "nonempty"
            elif op == "==" or (op == "<=" and r == "0") or (op == "<" and r == "0"):
                verdict = "empty"
        elif l == "1" and r == ln and op == "<=":
            verdict = "nonempty"
        elif l == ln and r == "1" and op == "<":
            verdict = "empty"
    return verdict


# ----------------------------------------------------------------------------
# same-name construction
# ----------------------------------------------------------------------------

def same_name_constructor(ck, rid, ci, exceptions=()):
    """a data-holder constructor stores each parameter under its own name: the value stored into self.X / self._X derives from the
    parameter X and from no *other* parameter that has an attribute of its own (self.arrival = departure, self.min_rates =
    np.array(max_rates) are cross-wirings), except on the edge where X was not given (`X is None`: a documented default).  Every
    parameter that has a like-named attribute is stored on every normally ending path."""
    repo = ck.repo
    init = repo.method(ci, "__init__", optional=True)
    if init is None or init.cls is not ci:
        return 0
    fl = flow_of(init)
    params = [p for p in init.params[1:]]
    writes = [(n, k, p, t) for n, k, p, t in state_writes(fl) if k == "assign" and p.count(".") == 1]
    attrs = {p.split(".")[1] for _, _, p, _ in writes}
    owned = {p for p in params if p in attrs or ("_" + p) in attrs}
    n_checked = 0
    for n, k, p, t in writes:
        a = p.split(".")[1]
        own = a if a in params else (a[1:] if a.startswith("_") and a[1:] in params else None)
        if own is None or (ci.name, a) in exceptions:
            continue
        v = gexpand(fl, n.stmt.value, n)
        names = {x.id for x in ast.walk(v) if isinstance(x, ast.Name)}
        others = (names & owned) - {own}
        defaulted = any((c := cmp_norm(x_, tr)) and c[1] == "is" and canon(c[0]) == own and canon(c[2]) == "None"
                        for a_, tr in facts_at(fl, n) for x_ in (a_, flow_expand_atom(fl, a_, n)))
        n_checked += 1
        if own in names and not others:
            ck.holds(rid, init, n.stmt, f"parameter {own} stored as {a}")
        elif defaulted and own not in names:
            ck.holds(rid, init, n.stmt, f"default for a missing {own}")
        else:
            ck.violation(rid, init, n.stmt, f"{ci.name}.{a} is built from {sorted(others) or sorted(names & set(params)) or 'no parameter'} instead of its own parameter "
                         f"`{own}`: the object reports another quantity under this name", sink=f"{ci.name}.{a}:source")
    # a parameter whose like-named attribute is read somewhere in the class must be stored by the constructor (directly or by the
    # parent constructor it delegates to)
    parent_params = set()
    sup_calls = [c for n, c in calls_in(fl, "__init__") if isinstance(c.func, ast.Attribute) and isinstance(c.func.value, ast.Call) and call_name(c.func.value) == "super"]
    parents = repo.mro(ci)[1:]
    pinit = next((pc.methods["__init__"] for pc in parents if "__init__" in pc.methods), None)
    for c in sup_calls:
        if pinit is None:
            continue
        try:
            b = bind_args(c, pinit, method=True)
        except AnalysisError:
            continue
        for pp, a in b.items():
            if isinstance(a, ast.Name) and a.id in params:
                parent_params.add(a.id)
                if a.id in pinit.params and pp in params:
                    ck.require(a.id == pp, rid, init, c, ok=f"{a.id} passed on as {pp}", bad=f"`{a.id}` is passed to the parent constructor as `{pp}`", sink=f"{ci.name}:super:{pp}<-{a.id}")
    if pinit is not None and any(p_ in pinit.params for p_ in params) and not sup_calls and "BaseSimObj" not in (pinit.cls.name if pinit.cls else ""):
        ck.violation(rid, init, init.node.name, f"{ci.name}.__init__ no longer calls the parent constructor {pinit.qual}: the inherited attributes are never set",
                     sink=f"{ci.name}:super-missing")
    reads = set()
    for c_ in repo.mro(ci):
        for m in list(c_.methods.values()) + list(c_.setters.values()):
            for x in walk_local(m.node):
                if isinstance(x, ast.Attribute) and isinstance(x.ctx, ast.Load) and isinstance(x.value, ast.Name) and x.value.id == "self":
                    reads.add(x.attr)
    all_w = state_writes(fl)
    for p_ in params:
        cands = [a_ for a_ in (p_, "_" + p_) if a_ in reads]
        if not cands or p_ in parent_params:
            continue
        attr = cands[-1]
        if not any(p.split(".", 1)[1] in (p_, "_" + p_) for _, _, p, _ in all_w if p.startswith("self.")):
            ck.violation(rid, init, init.node.name, f"{ci.name}.__init__ never stores its parameter `{p_}` although self.{attr} is read elsewhere in the class",
                         sink=f"{ci.name}.{attr}:never-stored")
    # every owned parameter is stored on every normal path
    for own in sorted(owned):
        stores = [n for n, k, p, t in writes if p.split(".")[1] in (own, "_" + own)]
        if stores and fl.cfg.exit in fl.cfg.reach(fl.cfg.entry, avoid=set(stores)):
            ck.violation(rid, init, stores[0].stmt, f"a path through {ci.name}.__init__ ends without storing `{own}`: the attribute is missing on the new object",
                         sink=f"{ci.name}.{own}:stored-every-path")
    return n_checked


def norm_items(e):
    """one spelling for a component of a loop element:  __elem__(X)[k]  (from `for r in X: r[k]`)  ->  __item__(__elem__(X), k)
    (what `for a, b in X` gives for a / b)"""
    import copy

    class T(ast.NodeTransformer):
        def visit_Subscript(self, n):
            self.generic_visit(n)
            if isinstance(n.slice, ast.Constant) and isinstance(n.slice.value, int) and isinstance(n.value, ast.Call) \
                    and call_name(n.value) in ("__elem__", "__item__", "__val__"):
                return ast.Call(func=ast.Name(id="__item__", ctx=ast.Load()), args=[n.value, n.slice], keywords=[])
            return n
    return T().visit(copy.deepcopy(e))


def flow_expand_atom(fl, a, node):
    try:
        return fl.expand(a, node)
    except Exception:
        return a


def list_extensions(fl, target):
    """[(cfg node, value expr)] of the statements that add all elements of a value to the list `target` (canonical text) at its end:
    target.extend(v), target += v, target = target + v (the loader writes this as +=), target[len(target):] = v"""
    out = []
    for n in fl.cfg.nodes:
        if n.kind != "stmt":
            continue
        st = n.stmt
        if isinstance(st, ast.Expr) and isinstance(st.value, ast.Call) and isinstance(st.value.func, ast.Attribute) and st.value.func.attr == "extend" \
                and canon(st.value.func.value) == target and len(st.value.args) == 1:
            out.append((n, st.value.args[0]))
        elif isinstance(st, ast.AugAssign) and isinstance(st.op, ast.Add) and canon(st.target) == target:
            out.append((n, st.value))
        elif isinstance(st, ast.Assign) and len(st.targets) == 1 and isinstance(st.targets[0], ast.Subscript) and canon(st.targets[0].value) == target \
                and isinstance(st.targets[0].slice, ast.Slice) and st.targets[0].slice.upper is None and st.targets[0].slice.step is None \
                and st.targets[0].slice.lower is not None and canon(st.targets[0].slice.lower) == f"len({target})":
            out.append((n, st.value))
    return out


def uncopy(e):
    """the value a copy was taken of: list(X) / tuple(X) / X.copy() / copy(X) hold the same elements in the same order as X"""
    while True:
        if isinstance(e, ast.Call) and isinstance(e.func, ast.Name) and e.func.id in ("list", "tuple", "copy", "deepcopy") and len(e.args) == 1 and not e.keywords \
                and not isinstance(e.args[0], ast.GeneratorExp):
            e = e.args[0]
        elif isinstance(e, ast.Call) and isinstance(e.func, ast.Attribute) and e.func.attr == "copy" and not e.args and not e.keywords:
            e = e.func.value
        else:
            return e


def uncopy_deep(e):
    """expression with every copy of a sequence-valued read (list(X) / tuple(X) / X.copy() / copy(X), X a name, attribute or call result) replaced by X"""
    import copy as _c

    class U(ast.NodeTransformer):
        def visit_Call(self, n):
            n = self.generic_visit(n)
            u = uncopy(n)
            return u if u is not n and isinstance(u, (ast.Name, ast.Attribute, ast.Call, ast.Subscript, ast.ListComp, ast.List, ast.Tuple)) else n
    return U().visit(_c.deepcopy(e))

#!/bin/sh
# cleanrun.sh [quick|thorough]: all twenty checks on /repo as it is, in parallel, evidence redirected; prints one line per property
MODE="${1:-quick}"
OUT=$(mktemp -d)
for i in 01 02 03 04 05 06 07 08 09 10 11 12 13 14 15 16 17 18 19 20; do
  ( VERIF_OUT="$OUT/ev" /verif/vcheck C$i $MODE > "$OUT/C$i.log" 2>&1; echo "C$i exit=$? $(grep -c '^VIOLATION' $OUT/C$i.log) violations $(grep -c '^ANALYSIS-ERROR' $OUT/C$i.log) errors $(grep "^C$i $MODE:" $OUT/C$i.log | sed 's/.*analysis errors, //')" ) &
done
wait
grep -h "^VIOLATION\|^ANALYSIS-ERROR\|^KNOWN" $OUT/*.log | head -40
rm -rf "$OUT"

#!/bin/sh
# verify_seed2.sh <dir with patch.diff + demo.py> <tag> <A|B>
# A (breaking): demo passes clean, fails patched.  B (behaviour-preserving): demo passes on both.  Suite must stay 386 passed / 0 failed.
S="$1"; TAG="$2"; KIND="$3"; WT="/tmp/verify/$TAG"
LOG="$S/verify.log"; : > "$LOG"
mkdir -p /tmp/verify
git -C /repo worktree remove --force "$WT" >/dev/null 2>&1
git -C /repo worktree add --detach "$WT" HEAD -q >>"$LOG" 2>&1 || { echo "$TAG worktree-failed"; exit 1; }
cd "$WT"
PYTHONPATH="$WT" timeout 900 /venv/bin/python "$S/demo.py" >>"$LOG" 2>&1; CLEAN=$?
if ! git apply "$S/patch.diff" >>"$LOG" 2>&1; then echo "$TAG kind=$KIND patch-does-not-apply"; cd /; git -C /repo worktree remove --force "$WT"; exit 1; fi
FILES=$(git status --short | tr '\n' ' ')
PYTHONPATH="$WT" timeout 900 /venv/bin/python "$S/demo.py" >>"$LOG" 2>&1; PATCHED=$?
SUITE=$(PYTHONPATH="$WT" timeout 1500 /venv/bin/python -m pytest -q -p no:cacheprovider --timeout=900 --continue-on-collection-errors 2>&1 | tail -1)
echo "suite: $SUITE" >>"$LOG"; echo "kind: $KIND clean_rc=$CLEAN patched_rc=$PATCHED" >>"$LOG"
cd /; git -C /repo worktree remove --force "$WT" >/dev/null 2>&1
OK=no
case "$SUITE" in *"386 passed"*) case "$SUITE" in *failed*) ;; *)
  if [ "$KIND" = A ]; then [ "$CLEAN" = 0 ] && [ "$PATCHED" != 0 ] && OK=yes; else [ "$CLEAN" = 0 ] && [ "$PATCHED" = 0 ] && OK=yes; fi;; esac;; esac
echo "$TAG kind=$KIND confirmed=$OK demo_clean_rc=$CLEAN demo_patched_rc=$PATCHED files=[$FILES]"

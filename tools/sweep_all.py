#!/usr/bin/env python3
"""sweep_all.py [--props own|all] [--write] [seed ids...]

Runs the quick checks against every change kept under /verif/seeded (round 1: <Cxx>-<k>, breaking; later rounds: r<N>-<Cxx>-A<k>
breaking, r<N>-<Cxx>-B<k> behaviour-preserving).  For speed the patch is applied to a scratch copy of the files it touches and handed
to the analysis as an in-memory overlay of /repo (16 processes); `tools/sweep_seeds.py` / `tools/try_seed.sh` do the same through
`git -C /repo apply` + `vcheck` + `git checkout`, which is the reference procedure.

Expected: a breaking change is reported (exit 1) by its own property; a behaviour-preserving one is silent (no violation, no
analysis-error) on *every* property.  --write stores the table in seeded/RESULTS.json."""
import glob, json, os, re, shutil, subprocess, sys, tempfile
from concurrent.futures import ProcessPoolExecutor

VERIF = os.path.dirname(os.path.dirname(os.path.abspath(__file__)))
sys.path.insert(0, VERIF)
PROPS = [f"C{i:02d}" for i in range(1, 21)]


def overlay_of(patch):
    patch = os.path.abspath(patch)
    files = sorted(set(re.findall(r"^\+\+\+ b/(.*)$", open(patch).read(), re.M)))
    tmp = tempfile.mkdtemp(prefix="ov-")
    try:
        for f in files:
            os.makedirs(os.path.dirname(os.path.join(tmp, f)), exist_ok=True)
            if os.path.exists(os.path.join("/repo", f)):
                shutil.copy(os.path.join("/repo", f), os.path.join(tmp, f))
        r = subprocess.run(["patch", "-p1", "-s", "-d", tmp, "-i", patch], capture_output=True, text=True)
        if r.returncode:
            return None
        return {f: open(os.path.join(tmp, f), encoding="utf-8").read() for f in files if f.endswith(".py") or f.endswith(".json")}
    finally:
        shutil.rmtree(tmp, ignore_errors=True)


def job(args):
    sid, prop, ov = args
    from sa.core import Repo, AnalysisError
    from sa.driver import run_property
    try:
        ck = run_property(prop, Repo("/repo", overlay=ov), "quick")
    except AnalysisError as e:
        return sid, prop, 2, [f"index: {e}"[:100]]
    except Exception as e:
        return sid, prop, 2, [f"CRASH {type(e).__name__}: {e}"[:100]]
    if ck.violations:
        return sid, prop, 1, sorted({v["rule"] for v in ck.violations})
    if ck.errors:
        return sid, prop, 2, sorted({r for r, _ in ck.errors})
    return sid, prop, 0, []


def main():
    args = sys.argv[1:]
    mode = "all"
    write = "--write" in args
    if write:
        args.remove("--write")
    if "--props" in args:
        i = args.index("--props"); mode = args[i + 1]; del args[i:i + 2]
    seeds = []
    for d in sorted(glob.glob(os.path.join(VERIF, "seeded", "*"))):
        if not os.path.exists(os.path.join(d, "patch.diff")):
            continue
        sid = os.path.basename(d)
        if args and not any(a == sid or a in sid.split("-") for a in args):
            continue
        meta = json.load(open(os.path.join(d, "meta.json")))
        kind = meta.get("kind", "breaking")
        pid = meta.get("breaks_property") or meta.get("refactors_code_of_property")
        seeds.append((sid, kind, pid, os.path.join(d, "patch.diff")))
    jobs = []
    for sid, kind, pid, patch in seeds:
        ov = overlay_of(patch)
        if ov is None:
            print(f"{sid}: patch does not apply to the current tree"); continue
        for p in (PROPS if (mode == "all" or kind != "breaking") else [pid]):
            jobs.append((sid, p, ov))
    res = {}
    with ProcessPoolExecutor(max_workers=16) as ex:
        for sid, p, rc, rules in ex.map(job, jobs, chunksize=4):
            res.setdefault(sid, {})[p] = (rc, rules)
    table, bad = {}, 0
    for sid, kind, pid, _ in seeds:
        r = res.get(sid, {})
        hits = {p: v for p, v in r.items() if v[0] != 0}
        if kind == "breaking":
            own = r.get(pid, (None, []))
            ok = own[0] == 1
            row = {"kind": kind, "property": pid, "verdict": "caught" if ok else ("analysis-error" if own[0] == 2 else "MISSED"), "own_rules": own[1],
                   "also_reported_by": {p: v[1] for p, v in hits.items() if p != pid and v[0] == 1}}
        else:
            ok = not hits
            row = {"kind": kind, "property": pid, "verdict": "silent" if ok else "FALSE-ALARM", "alarms": {p: v for p, v in hits.items()}}
        bad += 0 if ok else 1
        table[sid] = row
        print(f"{sid:14s} {kind[:8]:8s} {row['verdict']:14s} {row.get('own_rules') or row.get('alarms') or ''} {('also: ' + ','.join(sorted(row['also_reported_by']))) if row.get('also_reported_by') else ''}")
    nb = sum(1 for v in table.values() if v["kind"] == "breaking")
    print(f"{len(table)} seeded changes: {nb} breaking ({sum(1 for v in table.values() if v['verdict'] == 'caught')} caught by their own property), "
          f"{len(table) - nb} behaviour-preserving ({sum(1 for v in table.values() if v['verdict'] == 'silent')} silent on all properties); {bad} unexpected")
    if write:
        json.dump(table, open(os.path.join(VERIF, "seeded", "RESULTS.json"), "w"), indent=1, sort_keys=True)
    return 1 if bad else 0


if __name__ == "__main__":
    sys.exit(main())

#!/bin/sh
# try_seed.sh <patch dir> <prop> : apply patch to /repo, run the property's quick check verbosely, restore
D="$1"; P="$2"
git -C /repo apply "$D/patch.diff" || exit 1
VERIF_OUT=/tmp/x /verif/vcheck "$P" quick 2>&1 | grep -v "^  analysed\|^VIOLATION" | cut -c1-420
git -C /repo checkout -- . && git -C /repo clean -fdq -- acnportal

#!/usr/bin/env python3
"""mutant_suite.py [props...]  - development-time triage aid for the mutation sweep of the *checker* (never part of a check).

For every single-site mutant (sa/mutate.py) that the static rules of a property let through, run the pinned test suite on a scratch
copy of the tree with the mutant applied and record whether the suite kills it.  A survivor the suite kills is outside the threat
model (a change that fails the existing tests); a survivor that also passes the suite is a candidate for a real gap in the rules and
is what gets read by hand.  Results are cached in sa/catalogue/suite_kill.json keyed by mutant id.
Scratch copies live under /tmp/mutsuite/<worker> and are removed at the end."""
import json, os, shutil, subprocess, sys, tempfile
from concurrent.futures import ProcessPoolExecutor
VERIF = os.path.dirname(os.path.dirname(os.path.abspath(__file__)))
sys.path.insert(0, VERIF)
CACHE = os.path.join(VERIF, "sa", "catalogue", "suite_kill.json")
ROOT = "/tmp/mutsuite"


def static_run(args):
    prop, rel, text, mid, desc = args
    from sa.mutate import _run
    r, _ = _run((prop, rel, text, "/repo"))
    return prop, mid, desc, rel, text, r


def suite_run(args):
    mid, rel, text = args
    w = os.path.join(ROOT, f"w{os.getpid()}")
    if not os.path.exists(w):
        os.makedirs(w)
        for d in ("acnportal", "tests"):
            shutil.copytree(os.path.join("/repo", d), os.path.join(w, d), ignore=shutil.ignore_patterns("__pycache__"))
        for f in ("setup.py", "README.md"):
            if os.path.exists(os.path.join("/repo", f)):
                shutil.copy(os.path.join("/repo", f), w)
    tgt = os.path.join(w, rel)
    orig = open(os.path.join("/repo", rel), encoding="utf-8").read()
    open(tgt, "w", encoding="utf-8").write(text)
    try:
        r = subprocess.run(["/venv/bin/python", "-m", "pytest", "-q", "-x", "-p", "no:cacheprovider", "--timeout=300",
                            "--deselect", "tests/test_integration.py", "--ignore=tests/test_integration.py"],
                           cwd=w, env=dict(os.environ, PYTHONPATH=w, PYTHONDONTWRITEBYTECODE="1"), capture_output=True, text=True, timeout=900)
        tail = (r.stdout.strip().splitlines() or [""])[-1]
        verdict = "passes" if r.returncode == 0 else "killed"
    except subprocess.TimeoutExpired:
        verdict, tail = "killed", "timeout"
    finally:
        open(tgt, "w", encoding="utf-8").write(orig)
    return mid, verdict, tail[:100]


def all_props_run(args):
    mid, rel, text = args
    from sa.core import Repo, AnalysisError
    from sa.driver import run_property
    rep, err = [], []
    for i in range(1, 21):
        p = f"C{i:02d}"
        try:
            ck = run_property(p, Repo("/repo", overlay={rel: text}), "quick")
        except Exception:
            err.append(p); continue
        if ck.violations:
            rep.append(p + ":" + ",".join(sorted({v["rule"] for v in ck.violations}))[:60])
        elif ck.errors:
            err.append(p)
    return mid, rep, err


def main():
    props = sys.argv[1:] or [f"C{i:02d}" for i in range(1, 21)]
    from sa.core import Repo
    from sa.driver import run_property
    from sa import mutate, rules
    cache = json.load(open(CACHE)) if os.path.exists(CACHE) else {}
    repo = Repo("/repo")
    jobs = []
    for p in props:
        rules.ANALYSED.clear()
        run_property(p, repo, "quick")
        funcs = []
        for q, mod in sorted(dict(rules.ANALYSED).items()):
            funcs += [f for f in repo.funcs.get(q, []) if f.module == mod][:1]
        for mid, rel, desc, text in mutate.generate(repo, funcs):
            jobs.append((p, rel, text, mid, desc))
    print(len(jobs), "mutants")
    surv = {}
    with ProcessPoolExecutor(max_workers=16) as ex:
        for prop, mid, desc, rel, text, r in ex.map(static_run, jobs, chunksize=8):
            if r == "survived":
                surv.setdefault(mid, {"desc": desc, "rel": rel, "text": text, "props": []})["props"].append(prop)
    todo = [(mid, v["rel"], v["text"]) for mid, v in surv.items() if mid not in cache]
    print(len(surv), "distinct survivors;", len(todo), "to run through the suite")
    os.makedirs(ROOT, exist_ok=True)
    try:
        with ProcessPoolExecutor(max_workers=14) as ex:
            for i, (mid, verdict, tail) in enumerate(ex.map(suite_run, todo, chunksize=1)):
                cache[mid] = {"suite": verdict, "desc": surv[mid]["desc"], "props": sorted(set(surv[mid]["props"])), "tail": tail}
                if i % 50 == 0:
                    json.dump(cache, open(CACHE, "w"), indent=0, sort_keys=True)
                    print(i, "/", len(todo), flush=True)
    finally:
        json.dump(cache, open(CACHE, "w"), indent=0, sort_keys=True)
        shutil.rmtree(ROOT, ignore_errors=True)
    todo2 = [(mid, v["rel"], v["text"]) for mid, v in surv.items() if cache.get(mid, {}).get("suite") == "passes" and "reported_by" not in cache[mid]]
    print(len(todo2), "suite-passing survivors to run against all twenty properties")
    with ProcessPoolExecutor(max_workers=16) as ex:
        for mid, rep, err in ex.map(all_props_run, todo2, chunksize=2):
            cache[mid]["reported_by"] = rep
            cache[mid]["analysis_error_in"] = err
    for mid, v in surv.items():
        if mid in cache:
            cache[mid]["props"] = sorted(set(cache[mid].get("props", [])) | set(v["props"]))
    json.dump(cache, open(CACHE, "w"), indent=0, sort_keys=True)
    n_pass = sum(1 for m in surv if cache.get(m, {}).get("suite") == "passes")
    print(f"{len(surv)} survivors of the static rules: {len(surv) - n_pass} killed by the pinned suite, {n_pass} pass it as well")


if __name__ == "__main__":
    main()

#!/usr/bin/env python3
"""Regenerate /verif/MANIFEST.json from the property modules that exist under sa/props.

A property is *claimed* when sa/props/cXX.py exists and declares EXPLANATION, NOT_DECIDED and
TECHNIQUE (or a technique is listed below); every other property is listed under not_applicable."""
import importlib
import json
import os
import sys

HERE = os.path.dirname(os.path.dirname(os.path.abspath(__file__)))
sys.path.insert(0, HERE)

TECH = {
    "C01": "static analysis: CFG dominance / must-pass-through over Simulator.run and _process_event (after partial evaluation of table-driven dispatch and helper inlining), decision tables of the network plug/unplug transitions, folded precedence table, who-adds-events call graph, index-domain typing, generic undefined-local / dropped-return rules",
    "C02": "static analysis: units (dimension+scale) abstract interpretation, who-writes/who-calls maps, argument binding, linear-form index offsets",
    "C03": "static analysis: clamp-operand coverage via reaching definitions with region case analysis, noise taint (lowered/raised) to state sinks, validate-before-write on CFG, computer-algebra identities of the continuous closed form against the differential law",
    "C04": "static analysis: validate-before-write path rule on CFG, linear-form slice bounds, list-construction provenance, None-discipline dataflow, decision table of set_pilot, must-pass-through growth of the history arrays",
    "C05": "static analysis: short-circuit truth table of the recompute condition, CFG ordering, alias/escape classification of Interface returns (shallow copies keep element aliasing), memo-guard coverage (stateless view), derived-state coherence, argument binding, same-name constructor and per-station accessor tables",
    "C06": "static analysis: sibling agreement of the three feasibility checkers (tolerance formula, defaults, abs placement) by mode specialisation of gated expressions, symbolic array shapes, decision table of row acceptance, None-discipline",
    "C07": "static analysis: must-pass-through pipeline, clamp operand coverage, tentative-write-validated-or-reverted path rule, typestate dataflow (value written x feasibility verdict) over the CFG of the finite-rate search, index-domain typing",
    "C08": "static analysis: folded sort-order table, queue-order iteration dataflow, typestate dataflow of the finite-rate search (largest level first, one step at a time, 0 only when exhausted), bisection edge rules, deque end discipline",
    "C09": "static analysis: serialisation agreement (written attrs = dumped keys = restored keys, whole value dumped), registry threading and protocol-dictionary binding, JSON order options, same-name constructors, CFG ordering of run() around the scheduler call",
    "C10": "static analysis: index-domain and order-provenance typing, confinement of random/time/set iteration, affine use of absolute time, station-order round trip of the serialised network, densification and argument-binding rules shared with C04 / C05",
    "C11": "static analysis: who-writes heap discipline, heap key influence, truth atoms of the inclusive cut, derived-query influence sets",
    "C12": "static analysis: co-mutation of parallel arrays, by-name reindex dataflow, all-paths-return-Current closure with the result as a linear form in (self, other) on every path (decision table), validate-before-write",
    "C13": "static analysis: validate-before-mutate CFG rule and decision table of set_pilot, who-writes / who-calls confinement of the occupant, sibling exhaustiveness, advertiser/validator attribute agreement, cache refresh must-follow, escape analysis, per-station accessor table",
    "C14": "static analysis: clamp operand coverage, units abstract interpretation of every two-stage formula, CFG dominance of zero-pilot return, computer-algebra identities (symbolic differentiation/simplification of the expanded source expressions against the documented differential law)",
    "C15": "static analysis: interprocedural units abstract interpretation incl. capacity-function protocol, sibling argument binding, field-to-role dataflow, guard/edge rules of the capacity fit, computer-algebra identities of the fit's formulas against the battery law",
    "C16": "static analysis: closed-term partial evaluation of the site factories (constants, sibling-module helpers, in-place Current semantics) with symbolic capacities and a tainted voltage argument; structural wye/delta check + hand lemma; algebra and feasibility rules shared with C12 / C06",
    "C17": "static analysis: exhaustive calendar partition of the bundled JSON tables, folded masks, comparison atoms, units of cost formulas",
    "C18": "static analysis: units abstract interpretation + required influence sets/reductions per analysis function, name/row order provenance",
    "C19": "static analysis: exactly-one-placement path enumeration, FIFO end discipline, counter-edge agreement, None-discipline of station occupants, must-exist call in run()",
    "C20": "static analysis: validate-before-request CFG rule, pagination path rules, parameter influence into URLs, folded format-string agreement",
}

LEVEL_NOTE = ("Trusted base: CPython's ast parser; the CFG/dominance/reaching-definition implementation in sa/flow.py; the frozen tables "
              "(attribute types, units, synonyms, specification formulas) in sa/tables.py and the property module; the documented semantics of "
              "heapq, min/max, numpy reductions, pandas reindex and copy.deepcopy. Decides the structural clauses listed; does not decide: ")


def main():
    props = [json.loads(l) for l in open(os.path.join(HERE, "properties.jsonl"))]
    checks, na = [], []
    for p in props:
        pid = p["id"]
        path = os.path.join(HERE, "sa", "props", pid.lower() + ".py")
        if not os.path.exists(path):
            na.append({"property_id": pid, "reason": "check under construction in this build phase; will be claimed once its rule set is implemented"})
            continue
        mod = importlib.import_module(f"sa.props.{pid.lower()}")
        reason = getattr(mod, "NOT_APPLICABLE", None)
        if reason:
            na.append({"property_id": pid, "reason": reason})
            continue
        expl = getattr(mod, "EXPLANATION")
        nd = getattr(mod, "NOT_DECIDED", "")
        checks.append({
            "property_id": pid,
            "quick_cmd": f"./vcheck {pid} quick",
            "thorough_cmd": f"./vcheck {pid} thorough",
            "evidence_file": f"/verif/evidence/{pid}.json",
            "replay_cmd_template": "./vcheck --replay {path}",
            "engine": "sa",
            "level_claimed": {
                "category": "other",
                "text": ("Static structural analysis of /repo's current source (no repository code is executed). Decides, for every path of the "
                         "anchored code and hence every input driving it: " + expl + " This is a set of necessary structural conditions of the "
                         "property, not the behaviour itself; NOT decided: " + nd + "."),
                "design_ref": f"DESIGN.md section 5.{int(pid[1:])}",
            },
            "level_note": LEVEL_NOTE + nd,
            "technique": getattr(mod, "TECHNIQUE", TECH[pid]),
        })
    man = {
        "version": 1,
        "setup_cmd": "/venv/bin/python -m compileall -q sa >/dev/null 2>&1 || python3 -m compileall -q sa >/dev/null 2>&1 || true",
        "hooks": {
            "guard": "ACNPORTAL_VERIF_UNUSED",
            "enable": "none: static analysis needs no instrumentation; /repo carries only unguarded fix: commits",
            "baseline_off_cmd": "cd /repo && /venv/bin/python -m pytest -ra -q -p no:cacheprovider --timeout=900 --continue-on-collection-errors",
            "source_commits": [],
            "add_only": True,
        },
        "engines": [{"name": "sa", "path": "sa/", "serves_properties": [c["property_id"] for c in checks],
                     "kind_free_text": "repository-specific static analyser on stdlib ast: program index, statement CFG with edge nodes, dominance, "
                                       "reaching definitions/expansion, units, None-discipline, taint/clamp, truth tables, serialisation agreement, "
                                       "site-factory partial evaluation"}],
        "checks": checks,
        "notes": "All checks are static (family: static analysis). Exit 0 holds / 1 VIOLATION / 2 ANALYSIS-ERROR (anchor vanished or idiom not recognised). "
                 "Known findings: KNOWN_FINDINGS.txt (ten fixed: entries, no open finding). Seeded breaking changes: seeded/.",
        "not_applicable": na,
    }
    with open(os.path.join(HERE, "MANIFEST.json"), "w") as fh:
        json.dump(man, fh, indent=1)
        fh.write("\n")
    print(f"claimed {len(checks)}: {[c['property_id'] for c in checks]}; not_applicable {len(na)}")


if __name__ == "__main__":
    main()

#!/usr/bin/env python3
"""try_patch.py <dir with patch.diff | patch file> [C01,C02|all|own=Cxx] [-v]: run quick checks on /repo + patch (in-memory overlay)."""
import os, sys
VERIF = os.path.dirname(os.path.dirname(os.path.abspath(__file__)))
sys.path.insert(0, VERIF); sys.path.insert(0, os.path.join(VERIF, "tools"))
from sweep_all import overlay_of
from sa.core import Repo, AnalysisError
from sa.driver import run_property

def main():
    a = [x for x in sys.argv[1:] if x != "-v"]
    verbose = "-v" in sys.argv
    p = a[0]
    patch = os.path.join(p, "patch.diff") if os.path.isdir(p) else p
    props = [f"C{i:02d}" for i in range(1, 21)] if len(a) < 2 or a[1] == "all" else a[1].split(",")
    ov = overlay_of(patch)
    if ov is None:
        print("patch does not apply"); return 1
    for pr in props:
        try:
            ck = run_property(pr, Repo("/repo", overlay=ov), "quick")
        except AnalysisError as e:
            print(f"{pr}: ANALYSIS-ERROR(index) {e}"); continue
        except Exception as e:
            import traceback; traceback.print_exc()
            print(f"{pr}: CRASH {type(e).__name__}: {e}"); continue
        if ck.violations:
            print(f"{pr}: VIOLATION {sorted({v['rule'] for v in ck.violations})}")
            if verbose:
                for v in ck.violations:
                    print(f"     {v['rule']} {v['site']}: {v['construct'][:100]}\n         -> {v['detail'][:300]}")
        elif ck.errors:
            print(f"{pr}: ANALYSIS-ERROR {sorted({r for r, _ in ck.errors})}")
            if verbose:
                for r, m in ck.errors:
                    print(f"     {r}: {m[:300]}")
        elif len(props) <= 3:
            print(f"{pr}: silent")
main()

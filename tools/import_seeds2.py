#!/usr/bin/env python3
"""import_seeds2.py [src=/tmp/seeds2] [round=2]: copy confirmed round-N seeds <src>/<Cxx>/<A|B><k>/ into /verif/seeded/r<N>-<Cxx>-<A|B><k>/.
kind A = property-breaking change (demo passes clean, fails patched); kind B = behaviour-preserving refactoring (demo passes on both);
a seed is imported only if its verify.log (tools/verify_seed2.sh) confirms that and the pinned suite stays at 386 passed / 0 failed."""
import json, os, re, shutil, sys, glob
SRC = sys.argv[1] if len(sys.argv) > 1 else "/tmp/seeds2"
RND = sys.argv[2] if len(sys.argv) > 2 else "2"
DST = os.path.join(os.path.dirname(os.path.dirname(os.path.abspath(__file__))), "seeded")
n = 0
for d in sorted(glob.glob(f"{SRC}/C*/[AB][0-9]")):
    pid, k = d.split("/")[-2:]
    log = os.path.join(d, "verify.log")
    if not os.path.exists(log):
        print("skip (no verify.log)", d); continue
    txt = open(log).read()
    m = re.search(r"suite: (.*)", txt)
    suite = m.group(1) if m else ""
    mk = re.search(r"kind: (\w) clean_rc=(\d+) patched_rc=(\d+)", txt)
    if "386 passed" not in suite or "failed" in suite or not mk:
        print("skip (suite)", d, suite); continue
    kind, crc, prc = mk.group(1), int(mk.group(2)), int(mk.group(3))
    if kind != k[0] or crc != 0 or (kind == "A" and prc == 0) or (kind == "B" and prc != 0):
        print("skip (not confirmed)", d, mk.group(0)); continue
    sid = f"r{RND}-{pid}-{k}"
    out = os.path.join(DST, sid)
    os.makedirs(out, exist_ok=True)
    for f in ("patch.diff", "demo.py", "notes.md"):
        if os.path.exists(os.path.join(d, f)):
            shutil.copy(os.path.join(d, f), os.path.join(out, f))
    files = sorted(set(re.findall(r"^\+\+\+ b/(.*)$", open(os.path.join(d, "patch.diff")).read(), re.M)))
    meta_p = os.path.join(out, "meta.json")
    meta = json.load(open(meta_p)) if os.path.exists(meta_p) else {}
    meta.update({
        "seed_id": sid, "round": int(RND), "kind": "breaking" if kind == "A" else "behaviour-preserving",
        ("breaks_property" if kind == "A" else "refactors_code_of_property"): pid, "files_changed": files,
        "origin": "independent sub-agent given only the property text and a scratch worktree",
        "expected_verdict": "VIOLATION of the property" if kind == "A" else "silent (exit 0) on every property",
        "confirmed_by": {
            "how": "tools/verify_seed2.sh in a scratch worktree of /repo (removed afterwards)",
            "demo_on_clean_tree": "exit 0", "demo_with_patch": "exit != 0" if kind == "A" else "exit 0 (behaviour unchanged)",
            "pinned_suite_with_patch": suite,
        },
    })
    json.dump(meta, open(meta_p, "w"), indent=1)
    n += 1
print("imported", n)

#!/usr/bin/env python3
"""Apply each seeded change to /repo (git apply), run the static checks, undo it (git checkout -- .).

usage: sweep_seeds.py [--root DIR] [--all-props] [ids...]
DIR contains <Cxx>-<k>/patch.diff (default /verif/seeded).  Evidence of these runs goes to a scratch directory
(VERIF_OUT) so that the committed evidence is never overwritten by a run against a modified tree."""
import glob, json, os, re, subprocess, sys, tempfile

VERIF = os.path.dirname(os.path.dirname(os.path.abspath(__file__)))


def sh(cmd, **kw):
    return subprocess.run(cmd, shell=True, capture_output=True, text=True, **kw)


def main():
    args = sys.argv[1:]
    root = os.path.join(VERIF, "seeded")
    allp = False
    if "--root" in args:
        i = args.index("--root"); root = args[i + 1]; del args[i:i + 2]
    if "--all-props" in args:
        allp = True; args.remove("--all-props")
    if sh("git -C /repo status --short").stdout.strip():
        print("refusing: /repo working tree is not clean"); return 2
    claimed = [c["property_id"] for c in json.load(open(os.path.join(VERIF, "MANIFEST.json")))["checks"]]
    out = tempfile.mkdtemp(prefix="verif-sweep-")
    env = dict(os.environ, VERIF_OUT=out)
    rows = []
    for d in sorted(glob.glob(os.path.join(root, "C*"))):
        if not os.path.exists(os.path.join(d, "patch.diff")):
            continue
        pid, k = os.path.basename(d).split("-", 1)
        if args and pid not in args and f"{pid}-{k}" not in args:
            continue
        r = sh(f"git -C /repo apply {d}/patch.diff")
        if r.returncode:
            rows.append((pid, k, "patch-does-not-apply", "")); sh("git -C /repo checkout -- . && git -C /repo clean -fdq -- acnportal"); continue
        try:
            res = {}
            for p in (claimed if allp else [pid]):
                if p not in claimed:
                    res[p] = ("unclaimed", []); continue
                c = subprocess.run([os.path.join(VERIF, "vcheck"), p, "quick"], capture_output=True, text=True, env=env, cwd=VERIF)
                rules = sorted(set(re.findall(r"^\s+(C\d\d\.[\w.]+) at ", c.stdout, re.M)))
                errs = re.findall(r"^ANALYSIS-ERROR.*$", c.stdout, re.M)
                res[p] = (c.returncode, rules or [e[:120] for e in errs])
        finally:
            sh("git -C /repo checkout -- . && git -C /repo clean -fdq -- acnportal")
        own = res.get(pid)
        others = {p: v for p, v in res.items() if p != pid and v[0] not in (0, "unclaimed")}
        rows.append((pid, k, own, others))
        print(f"{pid}-{k}: own={own} others={others}", flush=True)
    assert not sh("git -C /repo status --short").stdout.strip()
    json.dump(rows, open(os.path.join(out, "sweep.json"), "w"), indent=1, default=str)
    print("results:", os.path.join(out, "sweep.json"))


if __name__ == "__main__":
    sys.exit(main())

#!/bin/sh
# verify_round.sh <src dir, e.g. /tmp/seeds5> <Cxx> : confirm the five changes of one property (tools/verify_seed2.sh), one line each
SRC="$1"; P="$2"
for K in A1 A2 A3 B1 B2; do
  [ -f "$SRC/$P/$K/patch.diff" ] || { echo "$P/$K missing"; continue; }
  KIND=$(echo $K | cut -c1)
  sh /verif/tools/verify_seed2.sh "$SRC/$P/$K" "v-$P-$K" "$KIND"
done

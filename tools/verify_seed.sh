#!/bin/sh
# verify_seed.sh <seed dir with patch.diff + demo.py> <tag>
# Confirms in a scratch worktree of /repo: demo passes clean, fails with the patch, pinned suite still 386 passed / 0 failed.
# Prints one summary line; writes details to <seed dir>/verify.log.  Removes the worktree.
S="$1"; TAG="$2"; WT="/tmp/verify/$TAG"
LOG="$S/verify.log"; : > "$LOG"
mkdir -p /tmp/verify
git -C /repo worktree remove --force "$WT" >/dev/null 2>&1
git -C /repo worktree add --detach "$WT" HEAD -q >>"$LOG" 2>&1 || { echo "$TAG worktree-failed"; exit 1; }
cd "$WT"
PYTHONPATH="$WT" timeout 600 /venv/bin/python "$S/demo.py" >>"$LOG" 2>&1; CLEAN=$?
if ! git apply "$S/patch.diff" >>"$LOG" 2>&1; then echo "$TAG patch-does-not-apply"; git -C /repo worktree remove --force "$WT"; exit 1; fi
FILES=$(git status --short | tr '\n' ' ')
PYTHONPATH="$WT" timeout 600 /venv/bin/python "$S/demo.py" >>"$LOG" 2>&1; PATCHED=$?
SUITE=$(PYTHONPATH="$WT" timeout 1500 /venv/bin/python -m pytest -q -p no:cacheprovider --timeout=900 --continue-on-collection-errors 2>&1 | tail -1)
echo "suite: $SUITE" >>"$LOG"
cd /; git -C /repo worktree remove --force "$WT" >/dev/null 2>&1
OK=no
case "$SUITE" in *"386 passed"*) case "$SUITE" in *failed*) ;; *) [ "$CLEAN" = 0 ] && [ "$PATCHED" != 0 ] && OK=yes;; esac;; esac
echo "$TAG confirmed=$OK demo_clean_rc=$CLEAN demo_patched_rc=$PATCHED files=[$FILES] suite=[$SUITE]"

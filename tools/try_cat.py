#!/usr/bin/env python3
"""try_cat.py <edit id> <prop>: apply one catalogue edit as an overlay and print the property's violations / errors"""
import sys, os
sys.path.insert(0, os.path.dirname(os.path.dirname(os.path.abspath(__file__))))
from sa.selfval import load_catalogue, apply_edit
from sa.core import Repo
from sa.driver import run_property
eid, prop = sys.argv[1:3]
it = [i for i in load_catalogue() if i["id"] == eid][0]
ov = apply_edit("/repo", it)
if ov is None:
    sys.exit("edit does not apply")
ck = run_property(prop, Repo("/repo", overlay=ov), "quick")
for v in ck.violations:
    print("VIOLATION", v["rule"], v.get("line"), v.get("construct", "")[:80], "::", v.get("detail", "")[:300])
for r, m in ck.errors:
    print("ERROR", r, m[:300])
print(len(ck.violations), "violations", len(ck.errors), "errors")

#!/usr/bin/env python3
"""mut.py <Cxx> <mutant id | substring of its description> [--props C01,C05|all] [--show]

Regenerates a single-site mutant of the thorough tier's mutation sweep (sa/mutate.py) for property <Cxx> and runs the quick
checks of the given properties (default: <Cxx> only) on it as an in-memory overlay; prints verdict and rule ids.  Development aid
for triaging MUTANT-SURVIVOR lines; changes nothing on disk."""
import difflib
import os
import sys

VERIF = os.path.dirname(os.path.dirname(os.path.abspath(__file__)))
sys.path.insert(0, VERIF)
from sa.core import Repo, AnalysisError  # noqa: E402
from sa.driver import run_property  # noqa: E402
from sa import rules, mutate  # noqa: E402


def main():
    a = sys.argv[1:]
    show = "--show" in a
    if show:
        a.remove("--show")
    props = None
    if "--props" in a:
        i = a.index("--props")
        props = a[i + 1]
        del a[i:i + 2]
    prop, want = a[0], a[1]
    props = [prop] if props is None else ([f"C{i:02d}" for i in range(1, 21)] if props == "all" else props.split(","))
    repo = Repo()
    rules.ANALYSED.clear()
    run_property(prop, repo, "quick")
    funcs = []
    for q, mod in sorted(rules.ANALYSED.items()):
        funcs += [f for f in repo.funcs.get(q, []) if f.module == mod][:1]
    hits = [(mid, rel, d, text) for mid, rel, d, text in mutate.generate(repo, funcs) if mid == want or want in d]
    if not hits:
        print("no such mutant")
        return 1
    seen = set()
    for mid, rel, d, text in hits:
        if mid in seen:
            continue
        seen.add(mid)
        print(f"== {mid} {d}")
        if show:
            old = repo.sources[rel]
            import ast
            old = ast.unparse(ast.parse(old))
            for ln in difflib.unified_diff(old.splitlines(), text.splitlines(), lineterm="", n=2):
                if not ln.startswith(("---", "+++")):
                    print("   ", ln)
        for p in props:
            try:
                ck = run_property(p, Repo(overlay={rel: text}), "quick")
            except AnalysisError as e:
                print(f"   {p}: ANALYSIS-ERROR {e}")
                continue
            if ck.violations:
                print(f"   {p}: VIOLATION {sorted({v['rule'] for v in ck.violations})}")
            elif ck.errors:
                print(f"   {p}: ANALYSIS-ERROR {sorted({r for r, _ in ck.errors})}")
            elif len(props) == 1:
                print(f"   {p}: survived")
    return 0


if __name__ == "__main__":
    sys.exit(main())

#!/usr/bin/env python3
"""mutmatrix.py [--out FILE] [--jobs N] [--props C01,C02]

Cross-property mutation matrix (development aid, measures the checker, changes nothing in /repo): every single-site mutant
(sa/mutate.py) of every function that at least one property's rules analyse is run against *all* properties that analyse that
function.  Output JSON: {mutant id: {desc, rel, func, props: {Cxx: [verdict, rules]}}}.  A mutant no property reports is a global
survivor: either equivalent / outside every property, or a gap worth a rule."""
import json
import os
import sys
from concurrent.futures import ProcessPoolExecutor

VERIF = os.path.dirname(os.path.dirname(os.path.abspath(__file__)))
sys.path.insert(0, VERIF)
from sa.core import Repo, AnalysisError  # noqa: E402
from sa.driver import run_property  # noqa: E402
from sa import rules, mutate  # noqa: E402

PROPS = [f"C{i:02d}" for i in range(1, 21)]


def job(args):
    mid, rel, text, props = args
    out = {}
    try:
        repo = Repo(overlay={rel: text})
    except AnalysisError:
        return mid, {p: ["unrecognised", []] for p in props}
    for p in props:
        try:
            ck = run_property(p, repo, "quick")
        except Exception as e:
            out[p] = ["crashed", [f"{type(e).__name__}: {e}"[:100]]]
            continue
        if ck.violations:
            out[p] = ["reported", sorted({v["rule"] for v in ck.violations})]
        elif ck.errors:
            out[p] = ["unrecognised", sorted({r for r, _ in ck.errors})]
        else:
            out[p] = ["survived", []]
    return mid, out


def main():
    a = sys.argv[1:]
    out = "/tmp/mutmatrix.json"
    jobs = 14
    props = PROPS
    if "--out" in a:
        out = a[a.index("--out") + 1]
    if "--jobs" in a:
        jobs = int(a[a.index("--jobs") + 1])
    if "--props" in a:
        props = a[a.index("--props") + 1].split(",")
    repo = Repo()
    analysed = {}
    for p in props:
        rules.ANALYSED.clear()
        run_property(p, repo, "quick")
        for q, mod in rules.ANALYSED.items():
            analysed.setdefault((q, mod), set()).add(p)
    funcs, owner = [], {}
    for (q, mod), ps in sorted(analysed.items()):
        cands = [f for f in repo.funcs.get(q, []) if f.module == mod][:1]
        for f in cands:
            funcs.append(f)
            owner[f.qual] = sorted(ps)
    table, work = {}, []
    for mid, rel, d, text in mutate.generate(repo, funcs):
        q = d.split(":", 1)[0]
        table[mid] = {"desc": d, "rel": rel, "func": q, "props": {}}
        work.append((mid, rel, text, owner[q]))
    print(f"{len(funcs)} functions, {len(work)} mutants, {sum(len(w[3]) for w in work)} property runs", flush=True)
    with ProcessPoolExecutor(max_workers=jobs) as ex:
        for i, (mid, res) in enumerate(ex.map(job, work, chunksize=2)):
            table[mid]["props"] = res
            if i % 500 == 0:
                print(i, flush=True)
    json.dump(table, open(out, "w"), indent=0)
    glob = [m for m in table.values() if not any(v[0] == "reported" for v in m["props"].values())]
    print(f"global survivors (no analysing property reports): {len(glob)} of {len(table)}")


if __name__ == "__main__":
    main()

#!/usr/bin/env python3
"""append entries to sa/catalogue/extra.json:  addcat.py <python-file-with-ENTRIES dict>  (or import add(entries))"""
import json, os, sys
P = os.path.join(os.path.dirname(os.path.dirname(os.path.abspath(__file__))), "sa", "catalogue", "extra.json")
def add(entries):
    d = json.load(open(P))
    for k, v in entries.items():
        d[k] = v
    json.dump(d, open(P, "w"), indent=1)
    print("catalogue extra.json:", len(d), "entries")
if __name__ == "__main__":
    ns = {}
    exec(open(sys.argv[1]).read(), ns)
    add(ns["ENTRIES"])

#!/usr/bin/env python3
"""import_seeds.py: copy confirmed seeds from /tmp/seeds/<Cxx>/<k>/ into /verif/seeded/<Cxx>-<k>/ with meta.json.
A seed is imported only if its verify.log (written by tools/verify_seed.sh) shows: demo passes clean, fails patched, suite 386 passed."""
import json, os, re, shutil, sys, glob
SRC = "/tmp/seeds"
DST = os.path.join(os.path.dirname(os.path.dirname(os.path.abspath(__file__))), "seeded")
os.makedirs(DST, exist_ok=True)
n = 0
for d in sorted(glob.glob(f"{SRC}/C*/[0-9]")):
    pid, k = d.split("/")[-2:]
    log = os.path.join(d, "verify.log")
    if not os.path.exists(log):
        continue
    txt = open(log).read()
    m = re.search(r"suite: (.*)", txt)
    suite = m.group(1) if m else ""
    if "386 passed" not in suite or "failed" in suite:
        print("skip (suite)", d); continue
    out = os.path.join(DST, f"{pid}-{k}")
    os.makedirs(out, exist_ok=True)
    for f in ("patch.diff", "demo.py", "notes.md"):
        if os.path.exists(os.path.join(d, f)):
            shutil.copy(os.path.join(d, f), os.path.join(out, f))
    notes = open(os.path.join(d, "notes.md")).read() if os.path.exists(os.path.join(d, "notes.md")) else ""
    files = sorted(set(re.findall(r"^\+\+\+ b/(.*)$", open(os.path.join(d, "patch.diff")).read(), re.M)))
    meta_p = os.path.join(out, "meta.json")
    meta = json.load(open(meta_p)) if os.path.exists(meta_p) else {}
    meta.update({
        "seed_id": f"{pid}-{k}", "breaks_property": pid, "files_changed": files,
        "origin": "independent sub-agent given only the property text and a scratch worktree",
        "needs_to_manifest": meta.get("needs_to_manifest", ""),
        "confirmed_by": {
            "how": "tools/verify_seed.sh in a scratch worktree of /repo (removed afterwards)",
            "demo_on_clean_tree": "exit 0", "demo_with_patch": "exit != 0",
            "pinned_suite_with_patch": suite,
        },
    })
    json.dump(meta, open(meta_p, "w"), indent=1)
    n += 1
print("imported", n)

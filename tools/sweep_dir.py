#!/usr/bin/env python3
"""sweep_dir.py <root> [--all-props] : root/<Cxx>/<K>/patch.diff ; applies each to /repo, runs checks (own or all), restores."""
import glob, json, os, re, subprocess, sys, tempfile
VERIF = os.path.dirname(os.path.dirname(os.path.abspath(__file__)))
def sh(c): return subprocess.run(c, shell=True, capture_output=True, text=True)
root = sys.argv[1]; allp = "--all-props" in sys.argv
only = [a for a in sys.argv[2:] if not a.startswith("--")]
assert not sh("git -C /repo status --short").stdout.strip(), "repo dirty"
claimed = [c["property_id"] for c in json.load(open(os.path.join(VERIF, "MANIFEST.json")))["checks"]]
out = tempfile.mkdtemp(prefix="verif-sweep-"); env = dict(os.environ, VERIF_OUT=out)
for d in sorted(glob.glob(os.path.join(root, "C*", "*"))):
    if not os.path.exists(d + "/patch.diff"): continue
    pid, k = d.split("/")[-2:]
    if only and pid not in only and f"{pid}/{k}" not in only: continue
    if sh(f"git -C /repo apply {d}/patch.diff").returncode:
        print(f"{pid}/{k}: patch-does-not-apply"); sh("git -C /repo checkout -- . && git -C /repo clean -fdq -- acnportal"); continue
    try:
        res = {}
        for p in (claimed if allp else [pid]):
            c = subprocess.run([VERIF + "/vcheck", p, "quick"], capture_output=True, text=True, env=env, cwd=VERIF)
            rules = sorted(set(re.findall(r"^\s+(C\d\d\.[\w.]+) at ", c.stdout, re.M)))
            errs = [e[:160] for e in re.findall(r"^ANALYSIS-ERROR.*$", c.stdout, re.M)]
            if c.returncode: res[p] = (c.returncode, rules or errs)
    finally:
        sh("git -C /repo checkout -- . && git -C /repo clean -fdq -- acnportal")
    print(f"{pid}/{k}: {res if res else 'silent'}", flush=True)

#!/usr/bin/env python3
"""annotate_round.py <src> <round>: after import_seeds2.py, copy the NEEDS: line of notes.md into meta.json::needs_to_manifest"""
import json, os, re, sys, glob
SRC, RND = sys.argv[1], sys.argv[2]
DST = os.path.join(os.path.dirname(os.path.dirname(os.path.abspath(__file__))), "seeded")
for d in sorted(glob.glob(f"{DST}/r{RND}-*")):
    mp = os.path.join(d, "meta.json")
    m = json.load(open(mp))
    notes = os.path.join(d, "notes.md")
    if os.path.exists(notes):
        t = open(notes).read()
        mm = re.search(r"NEEDS:\s*(.*)", t)
        if mm:
            m["needs_to_manifest"] = mm.group(1).strip()
        m["what_it_does"] = " ".join(t.split())[:600]
    m["what_was_run"] = ("demo.py on the clean tree (exit 0), demo.py with patch.diff applied (exit != 0 for breaking / exit 0 for behaviour-preserving), "
                         "pinned suite with the patch (386 passed, 0 failed) - tools/verify_seed2.sh in a scratch worktree")
    json.dump(m, open(mp, "w"), indent=1)
print("annotated")

"""Reproductions of the genuine defects (F1-F11) against the real code.
Not part of any check (checks are static); kept as the demonstration that each
finding is a defect of zach401/acnportal and that the `fix:` commit repairs it.
Usage: /venv/bin/python /verif/findings/repro.py   (prints PASS/FAIL per finding)"""
import warnings, sys
from datetime import datetime
import numpy as np
warnings.simplefilter("ignore")
from acnportal import acnsim
from acnportal.acnsim import Simulator, EventQueue, PluginEvent, EV, Battery, Linear2StageBattery, EVSE, ChargingNetwork, Current
from acnportal.acnsim.models.battery import batt_cap_fn
from acnportal.algorithms import BaseAlgorithm, UncontrolledCharging, SortedSchedulingAlgo, first_come_first_served, SimpleRampdown
from acnportal.algorithms.preprocessing import apply_upper_bound_estimate
from acnportal.acnsim.interface import SessionInfo, Interface

def f1():
    np.random.seed(0)
    b = Linear2StageBattery(100, 50, 7, noise_level=5)
    before = b._current_charge
    r = b.charge(1, 240, 5)
    return r >= 0 and b._current_charge >= before

def net(n=1, constraints=True):
    nw = ChargingNetwork()
    for i in range(n):
        nw.register_evse(EVSE(f"S{i}", max_rate=32), 240, 0)
    if constraints:
        nw.add_constraint(Current([f"S{i}" for i in range(n)]), 1000, name="all")
    return nw

class Long(BaseAlgorithm):
    def __init__(self):
        super().__init__(); self.max_recompute = 1
    def schedule(self, sessions):
        return {s.station_id: [1, 1, 1] for s in sessions} or {"S0": [0, 0, 0]}

def f2():
    nw = net()
    ev = EV(0, 3, 5, "S0", "sess", Battery(50, 0, 10))
    sim = Simulator(nw, Long(), EventQueue([PluginEvent(0, ev)]), datetime(2020, 1, 1), period=5, verbose=False)
    try:
        sim.run()
    except TypeError:
        return False
    return True

def f3():
    nw = net(2)
    sim = Simulator(nw, UncontrolledCharging(), EventQueue([]), datetime(2020, 1, 1), verbose=False)
    c = Interface(sim).get_constraints()
    c.magnitudes[0] = 0
    c.constraint_index.append("x")
    return nw.magnitudes[0] == 1000 and nw.constraint_index == ["all"]

def f4():
    nw = net(1, constraints=False)
    ev = EV(0, 3, 5, "S0", "sess", Battery(50, 0, 10))
    sim = Simulator(nw, SortedSchedulingAlgo(first_come_first_served), EventQueue([PluginEvent(0, ev)]), datetime(2020, 1, 1), period=5, verbose=False)
    try:
        sim.run()
    except AttributeError:
        return False
    return True

def f5():
    nw = ChargingNetwork()
    nw.register_evse(EVSE("A", max_rate=32), 240, 0)
    nw.register_evse(EVSE("B", max_rate=32), 240, 180)
    nw.add_constraint(Current({"A": 1, "B": -1}), 15, name="c")
    s = np.array([[10.0], [10.0]])
    phase_aware = nw.is_feasible(s)
    linear = nw.is_feasible(s, linear=True)
    return (not linear) or phase_aware   # conservative: linear accepts => phase-aware accepts

def f6():
    class Est(SimpleRampdown):
        def get_maximum_rates(self, sessions):
            return {s.session_id: 8.0 for s in sessions}
    s = SessionInfo("station-1", "session-1", 10, 0, 0, 10, max_rates=32)
    out = apply_upper_bound_estimate(Est(), [s])
    return float(np.max(out[0].max_rates)) == 8.0

def f7():
    a, b = Current(["x", "y"]), Current(["y", "z"])
    try:
        r1 = b + 2 * a
        r2 = 2 * a - b
    except TypeError:
        return False
    ok = isinstance(r1, Current) and isinstance(r2, Current) and r1["x"] == 2 and r1["y"] == 3 and r1["z"] == 1 \
        and r2["x"] == 2 and r2["y"] == 1 and r2["z"] == -1
    try:
        a + 3
        return False
    except TypeError:
        return ok

def f8():
    cap, init = batt_cap_fn(1, 100, 208, 5)
    b = Linear2StageBattery(cap, init, 32 * 208 / 1000)
    delivered = 0
    for _ in range(100):
        delivered += b.charge(32, 208, 5) * 208 / 1000 * 5 / 60
    return abs(delivered - 1) < 1e-6

def f9():
    from acnportal.acnsim.events.stochastic_events import StochasticEvents
    seen = []
    def cap_fn(e, stay, v, p):
        seen.append(stay); return e, 0
    evs = StochasticEvents._convert_ev_matrix(np.array([[8.0, 2.0, 5.0]]), 5, 208, 7, None, {"type": Battery, "capacity_fn": cap_fn})
    return seen == [evs[0].departure - evs[0].arrival]

def f10():
    from acnportal.signals.tariffs import TimeOfUseTariff
    t = TimeOfUseTariff("pge_a10_tou_aug_2019")
    try:
        t.get_tariff(datetime(2019, 1, 15, 12)); t.get_tariff(datetime(2019, 1, 19, 12))
    except ValueError:
        return False
    return True

def f11():
    # algorithm-side linear check must agree with the network-side one on a multi-period schedule
    from acnportal.acnsim.interface import InfrastructureInfo
    from acnportal.algorithms.utils import infrastructure_constraints_feasible
    nw = ChargingNetwork()
    for i in ("a", "b"):
        nw.register_evse(EVSE(i, max_rate=32), 208, 0)
    nw.add_constraint(Current(["a", "b"]), 10, name="c")
    S = np.array([[4.5, 4.5], [4.5, 4.5]])          # 9 A <= 10 A in each of the two periods
    info = InfrastructureInfo(nw.constraint_matrix, nw.magnitudes, nw._phase_angles, nw._voltages, nw.constraint_index,
                              nw.station_ids, nw.max_pilot_signals, nw.min_pilot_signals)
    return nw.is_feasible(S, linear=True) == infrastructure_constraints_feasible(S, info, linear=True) is True

if __name__ == "__main__":
    bad = 0
    for i, f in enumerate([f1, f2, f3, f4, f5, f6, f7, f8, f9, f10, f11], 1):
        try:
            ok = f()
        except Exception as e:
            ok = False; print("  exception", type(e).__name__, e)
        print(f"F{i}", "PASS" if ok else "FAIL"); bad += not ok
    sys.exit(1 if bad else 0)

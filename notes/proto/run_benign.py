"""Design-time calibration: which single-site edits survive the pinned suite?  (not framework code)"""
import json, os, shutil, subprocess, sys, tempfile, py_compile
from concurrent.futures import ThreadPoolExecutor
sys.path.insert(0, os.path.dirname(__file__))
from benign import M

BASE = 386


def nth_replace(s, old, new, n):
    idx = -1
    for _ in range(n + 1):
        idx = s.find(old, idx + 1)
        if idx < 0:
            return None
    return s[:idx] + new + s[idx + len(old):]


def run(mu):
    d = tempfile.mkdtemp(prefix="acnmut_")
    try:
        subprocess.run(["bash", "-c", f"cd /repo && git archive HEAD acnportal tests setup.py | tar -x -C {d}"], check=True)
        p = os.path.join(d, mu["file"])
        s = open(p).read()
        t = nth_replace(s, mu["old"], mu["new"], mu["occ"])
        if t is None:
            return mu["id"], "NOT-APPLIED", None
        open(p, "w").write(t)
        if p.endswith(".py"):
            try:
                py_compile.compile(p, doraise=True, cfile=os.path.join(d, "x.pyc"))
            except Exception as e:
                return mu["id"], "NO-COMPILE", str(e)[:80]
        env = dict(os.environ, PYTHONPATH=d, PYTHONDONTWRITEBYTECODE="1")
        r = subprocess.run(["/venv/bin/python", "-m", "pytest", "-q", "-p", "no:cacheprovider", "--timeout=900",
                            "--continue-on-collection-errors"], cwd=d, env=env,
                           capture_output=True, text=True)
        tail = [l for l in r.stdout.splitlines() if " passed" in l or " failed" in l or "error" in l.lower()][-1:]
        import re
        mt = re.search(r"(\d+) passed", r.stdout)
        passed = int(mt.group(1)) if mt else 0
        mf = re.search(r"(\d+) failed", r.stdout)
        failed = int(mf.group(1)) if mf else 0
        status = "SURVIVES" if (passed >= BASE and failed == 0) else "KILLED"
        return mu["id"], status, f"passed={passed} failed={failed}"
    finally:
        shutil.rmtree(d, ignore_errors=True)


if __name__ == "__main__":
    sel = [m for m in M if not sys.argv[1:] or m["id"] in sys.argv[1:]]
    with ThreadPoolExecutor(max_workers=14) as ex:
        res = list(ex.map(run, sel))
    out = {}
    for (i, st, info), mu in zip(res, sel):
        print(f"{i:5s} {mu['prop']} {st:11s} {info or ''}  [{mu['rule']}]")
        out[i] = dict(mu, status=st, info=info)
    json.dump(out, open("/tmp/explore/benign_results.json", "w"), indent=1)
    import collections
    c = collections.Counter(v["status"] for v in out.values())
    print(c)

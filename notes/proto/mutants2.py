"""Design-time calibration data, batch 2."""
A = "acnportal/acnsim/"
G = "acnportal/algorithms/"
T = "acnportal/signals/tariffs/tou_tariff.py"
SN = "acnportal/contrib/acnsim/network/stochastic_network.py"
DC = "acnportal/acndata/data_client.py"
UT = "acnportal/acndata/utils.py"
AN = A + "analysis/__init__.py"
M = []


def m(id, prop, file, old, new, rule, occ=0):
    M.append(dict(id=id, prop=prop, file=file, old=old, new=new, occ=occ, rule=rule))


# C01 / C02
m("n03", "C01", A + "simulator.py", "self.ev_history[event.ev.session_id] = event.ev", "self.ev_history[event.ev.station_id] = event.ev", "C01.R4")
m("n05", "C01", A + "models/evse.py", "        self._ev = None\n        self._current_pilot = 0\n", "        self._current_pilot = 0\n", "C01.R7", occ=1)
m("n07", "C02", A + "simulator.py", "            self.network.update_pilots(self.pilot_signals, self._iteration, self.period)\n            self._store_actual_charging_rates()\n", "            self._store_actual_charging_rates()\n            self.network.update_pilots(self.pilot_signals, self._iteration, self.period)\n", "C01.R6")
m("n08", "C01", A + "events/event.py", 'self.event_type = "Recompute"\n        self.precedence = 20', 'self.event_type = "Recompute"\n        self.precedence = 5', "C01.R1")
m("n13", "C02", A + "models/ev.py", "self._current_charging_rate = charge_rate", "self._current_charging_rate = pilot", "C02.R2")
m("n14", "C02", A + "models/battery.py", "        self._current_charge += charge_power * (period / 60)\n        self._current_charging_power = charge_power\n        return charge_power * 1000 / voltage\n\n    def _to_dict", "        self._current_charge += charge_power\n        self._current_charging_power = charge_power\n        return charge_power * 1000 / voltage\n\n    def _to_dict", "C02.R1")
m("n15", "C02", A + "simulator.py", "agg = np.sum(current_rates)", "agg = np.max(current_rates)", "C02.R7")
# C03
m("n21", "C03", A + "models/battery.py", '            if init_charge > self._capacity:\n                raise ValueError("Initial Charge cannot be greater than capacity.")\n', "", "C03.R5")
# C04
m("n30", "C04", A + "simulator.py", "        if len(new_schedule) == 0:\n            return\n", "", "C04.R1")
m("n33", "C04", A + "network/charging_network.py", "new_rate = pilots[station_number, i]", "new_rate = pilots[station_number, i - 1]", "C04.R6")
# C05
m("n42", "C05", A + "simulator.py", '            self._print("Recompute Event...")\n            self._resolve = True', '            self._print("Recompute Event...")', "C05.R3")
m("n43", "C05", A + "simulator.py", "                self._last_schedule_update = self._iteration\n                self._resolve = False\n            if not self.event_queue.empty():", "                self._resolve = False\n            if not self.event_queue.empty():", "C05.R3")
m("n45", "C05", A + "interface.py", "            self._simulator.start + timedelta(minutes=self.period) * self.current_time\n", "            self._simulator.start + timedelta(hours=self.period) * self.current_time\n", "C05.R7")
m("n46", "C05", A + "models/ev.py", "return not (self.remaining_demand > 1e-3)", "return not (self.remaining_demand > 1e-1)", "C05.R6")
m("n47", "C05", A + "network/charging_network.py", "            evse.ev\n            for evse in self._EVSEs.values()\n            if evse.ev is not None and not evse.ev.fully_charged", "            evse.ev\n            for evse in self._EVSEs.values()\n            if evse.ev is not None and evse.ev.fully_charged", "C05.R6")
m("n48", "C05", A + "interface.py", "for ev in self._active_evs\n                if ev.arrival <= i", "for ev in self._active_evs\n                if ev.arrival < i", "C05.R7")
# C06
m("n50", "C06", A + "network/charging_network.py", "rel_magnitude_tol = self.magnitudes * relative_tolerance", "rel_magnitude_tol = self.magnitudes * violation_tolerance", "C06.R1")
m("n51", "C06", A + "network/charging_network.py", "        if not len(self.magnitudes):\n            return True\n", "", "C06.R7")
m("n53", "C06", G + "utils.py", "line_currents <= infrastructure.constraint_limits[j] + tol[j]", "line_currents < infrastructure.constraint_limits[j] + tol[j]", "C06.R1")
m("n54", "C06", A + "network/charging_network.py", "np.exp(1j * np.deg2rad(self._phase_angles))", "np.exp(1j * self._phase_angles)", "C06.R3")
m("n55", "C06", G + "utils.py", "a = np.stack([v * np.cos(phase_in_rad), v * np.sin(phase_in_rad)])", "a = np.stack([v * np.cos(phase_in_rad), v * np.cos(phase_in_rad)])", "C06.R3")
# C07
m("n62", "C07", G + "sorted_algorithms.py", "                infrastructure.max_pilot[i],\n                self.interface.remaining_amp_periods(session),\n            )", "                infrastructure.max_pilot[i],\n            )", "C07.R2")
m("n63", "C07", G + "postprocessing.py", "        if np.isscalar(array_schedule[i]):\n            schedule[station_id] = [array_schedule[i]]", "        if np.isscalar(array_schedule[i]):\n            if array_schedule[i] > 0:\n                schedule[station_id] = [array_schedule[i]]", "C07.R6")
m("n64", "C07", G + "preprocessing.py", "            session.min_rates[0] = 0\n            session.max_rates[0] = 0\n", "            session.min_rates[0] = 0\n", "C07.R2")
m("n65", "C07", G + "upper_bound_estimator.py", "ub = float(np.clip(ub, a_min=0, a_max=max_pilot))", "ub = float(ub)", "C07.R2")
m("n66", "C07", G + "sorted_algorithms.py", '        if not infrastructure_constraints_feasible(schedule, infrastructure):\n            raise ValueError(\n                "Charging all sessions at their lower bound is not feasible."\n            )\n\n        for session in queue:', "        for session in queue:", "C07.R3")
m("n67", "C07", G + "preprocessing.py", "        if s.remaining_demand > threshold:\n            modified_sessions.append(s)", "        modified_sessions.append(s)", "C07.R1")
# C08
m("n70", "C08", G + "sorted_algorithms.py", "return sorted(evs, key=lambda x: x.estimated_departure)", "return sorted(evs, key=lambda x: x.departure)", "C08.R1")
m("n72", "C08", G + "sorted_algorithms.py", "            feasible_idx -= 1\n", "            feasible_idx -= 2\n", "C08.R3")
m("n74", "C08", G + "sorted_algorithms.py", "rpt = iface.remaining_amp_periods(ev) / iface.max_pilot_signal(ev.station_id)", "rpt = iface.remaining_amp_periods(ev) * iface.max_pilot_signal(ev.station_id)", "C08.R1")
# C09
m("n81", "C09", A + "simulator.py", '            "_iteration",\n            "_resolve",\n            "_last_schedule_update",\n        ]\n        for attr in attr_lst:', '            "_iteration",\n            "_last_schedule_update",\n        ]\n        for attr in attr_lst:', "C09.R1")
m("n83", "C09", A + "models/battery.py", '        out_obj._current_charging_power = attribute_dict["_current_charging_power"]\n', "", "C09.R1")
m("n85", "C09", A + "network/charging_network.py", 'out_obj._voltages = np.array(attribute_dict["_voltages"])', 'out_obj._voltages = np.array(attribute_dict["_phase_angles"])', "C09.R1")
m("n86", "C09", A + "simulator.py", "        self.scheduler.register_interface(Interface(self))\n        self.max_recompute = new_scheduler.max_recompute", "        self.scheduler.register_interface(Interface(self))", "C09.R6")
m("n87", "C09", A + "events/event.py", '        out_obj.event_type = attribute_dict["event_type"]\n        out_obj.precedence = attribute_dict["precedence"]', '        out_obj.event_type = attribute_dict["event_type"]', "C09.R1")
m("n88", "C09", A + "models/evse.py", '        out_obj._current_pilot = attribute_dict["_current_pilot"]\n', "", "C09.R1")
# C10 / C12
m("n90", "C10", A + "network/charging_network.py", "self._phase_angles = np.append(self._phase_angles, phase_angle)", "self._phase_angles = np.append(phase_angle, self._phase_angles)", "C10.R2")
m("n91", "C12", A + "network/charging_network.py", "self.magnitudes = np.append(self.magnitudes, limit)", "self.magnitudes = np.append(limit, self.magnitudes)", "C12.R1")
m("n92", "C12", A + "network/charging_network.py", "del_index: int = self.constraint_index.index(name)", "del_index: int = len(self.constraint_index) - 1", "C12.R1")
m("n95", "C12", A + "network/charging_network.py", "                constraint_frame = pd.concat(\n                    [constraint_frame, current.to_frame().T]\n                ).fillna(0)", "                constraint_frame = pd.concat(\n                    [constraint_frame, current.to_frame().T]\n                )", "C12.R2")
m("n96", "C12", A + "network/charging_network.py", "        if time_indices is not None:\n            schedule_matrix = schedule_matrix[:, time_indices]\n", "", "C12.R6")
# C13
m("n100", "C13", A + "models/evse.py", "return np.isclose(pilot, 0, atol=atol, rtol=0) or (", "return np.isclose(pilot, 0, atol=atol, rtol=0) and (", "C13.R4")
m("n101", "C13", A + "models/evse.py", "return np.any(np.isclose(pilot, self.allowable_rates, atol=1e-3, rtol=0))", "return np.any(np.isclose(pilot, self.allowable_rates, atol=1e-1, rtol=0))", "C13.R4")
m("n102", "C13", A + "models/evse.py", "        self._ev = None\n        self._current_pilot = 0\n", "        self._ev = None\n", "C13.R2", occ=1)
m("n104", "C13", A + "models/evse.py", "allowable_gt_zero = [r for r in self.allowable_rates if r > 0]", "allowable_gt_zero = [r for r in self.allowable_rates if r >= 0]", "C13.R4")
m("n105", "C13", A + "network/charging_network.py", "continuous, allowable = evse.is_continuous, evse.allowable_pilot_signals", "continuous, allowable = True, evse.allowable_pilot_signals", "C13.R6")
m("n106", "C13", A + "models/evse.py", "self._deadband_end <= pilot + atol and pilot - atol <= self.max_rate", "self._deadband_end <= pilot + atol and pilot + atol <= self.max_rate", "C13.R4")
# C14
m("n110", "C14", A + "models/battery.py", "            self._current_charge = self._init_charge\n", "            self._current_charge = 0\n", "C14.R4")
m("n111", "C14", A + "models/ev.py", "        self._energy_delivered = 0\n        self._battery.reset()", "        self._energy_delivered = 0", "C14.R4")
m("n113", "C14", A + "models/battery.py", "if 1 <= (pilot_transition_soc - self._soc) / pilot_dsoc:", "if 1 > (pilot_transition_soc - self._soc) / pilot_dsoc:", "C14.none")
# C15
m("n120", "C15", A + "events/stochastic_events.py", "departure = int((arrival + duration) * period_per_hour)", "departure = int(duration * period_per_hour)", "C15.R3")
m("n122", "C15", A + "events/acndata_events.py", "        departure = arrival + max_len\n", "        departure = max_len\n", "C15.R5")
m("n123", "C15", A + "events/acndata_events.py", "        cap = delivered_energy\n        init = 0\n", "        cap = delivered_energy\n        init = delivered_energy\n", "C15.R2")
m("n124", "C15", A + "models/battery.py", "        if requested_energy > cap:\n            continue\n", "", "C15.none")
m("n125", "C15", A + "events/stochastic_events.py", "            arrival = int(arrival * period_per_hour)\n", "            arrival = int(arrival * period)\n", "C15.R1")
# C17
m("n131", "C17", T, "                to_add.append(s_copy)\n", "", "C17.T1")
m("n132", "C17", T, "if target_hour >= r[0]:", "if target_hour > r[0]:", "C17.S1")
m("n133", "C17", T, "+ Decimal(date_time.minute) / 60", "+ Decimal(date_time.minute) / 100", "C17.S1")
m("n134", "C17", T, "s_copy.start = (1, 1)", "s_copy.start = (1, 2)", "C17.T1")
# C18
m("n140", "C18", AN, "if ev.remaining_demand < threshold", "if ev.remaining_demand > threshold", "C18.proportion")
m("n142", "C18", AN, "    total_requested = sum(ev.requested_energy for ev in sim.ev_history.values())\n    return total_requested", "    total_requested = sum(ev.energy_delivered for ev in sim.ev_history.values())\n    return total_requested", "C18.energy")
m("n143", "C18", AN, "return dc * np.max(agg)", "return dc * np.mean(agg)", "C18.demand")
m("n144", "C18", AN, "np.datetime64(no_tz_start + datetime.timedelta(minutes=sim.period * i))", "np.datetime64(no_tz_start + datetime.timedelta(minutes=sim.period * (i + 1)))", "C18.datetimes")
# C19
m("n150", "C19", SN, "self.waiting_queue.move_to_end(ev.session_id)", "self.waiting_queue.move_to_end(ev.session_id, last=False)", "C19.R3")
m("n151", "C19", SN, "                if len(self.waiting_queue) > 0:\n                    _, next_ev", "                if len(self.waiting_queue) > 1:\n                    _, next_ev", "C19.R4")
m("n152", "C19", SN, "                    self.swaps += 1\n", "", "C19.R5")
m("n153", "C19", SN, "            ev.update_station_id(chosen_spot)\n", "", "C19.R1")
m("n154", "C19", SN, "if evse.ev is not None and evse.ev.fully_charged", "if evse.ev is not None and not evse.ev.fully_charged", "C19.R6")
m("n155", "C19", SN, "            ev.update_station_id(None)\n            self.waiting_queue[ev.session_id] = ev", "            ev.update_station_id(None)\n            self.waiting_queue[ev.station_id] = ev", "C19.R1")
# C20
m("n160", "C20", DC, '        args.append("max_results={0}".format(limit))\n', "", "C20.R3")
m("n161", "C20", DC, '                site, condition, sort="connectionTime", timeseries=timeseries', "                site, condition, timeseries=timeseries", "C20.R3")
m("n162", "C20", DC, "cond.append('connectionTime <= \"{0}\"'.format(http_date(end)))", "cond.append('connectionTime <= \"{0}\"'.format(http_date(start)))", "C20.R3")
m("n163", "C20", UT, "    return dt.astimezone(tz)", "    return dt", "C20.R4")
m("n164", "C20", DC, "                parse_dates(s)\n                yield s", "                yield s", "C20.R5")

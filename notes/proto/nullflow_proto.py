"""Throwaway prototype: None-discipline for EventQueue.get_last_timestamp() (C04-R5)."""
import ast, json, pathlib, sys, re
sys.path.insert(0, '/tmp/explore')
from cfglib import CFG, Node

PRODUCER = "get_last_timestamp"

def is_prod_call(e):
    return isinstance(e, ast.Call) and isinstance(e.func, ast.Attribute) and e.func.attr == PRODUCER

def guard_facts(test, edge):
    """facts established on the given edge of a test expression: set of ('nonempty', queue_expr)"""
    facts = set()
    def pos(e, truth):
        if isinstance(e, ast.UnaryOp) and isinstance(e.op, ast.Not): pos(e.operand, not truth); return
        if isinstance(e, ast.BoolOp):
            if isinstance(e.op, ast.And) and truth:
                for v in e.values: pos(v, True)
            if isinstance(e.op, ast.Or) and not truth:
                for v in e.values: pos(v, False)
            return
        if isinstance(e, ast.Call) and isinstance(e.func, ast.Attribute) and e.func.attr == "empty":
            if not truth: facts.add(ast.unparse(e.func.value))
        if isinstance(e, ast.Compare) and len(e.ops) == 1 and is_prod_call(e.left) and isinstance(e.comparators[0], ast.Constant) and e.comparators[0].value is None:
            notnone = isinstance(e.ops[0], ast.IsNot)
            if notnone == truth: facts.add(ast.unparse(e.left.func.value))
    pos(test, edge)
    return facts

def analyse(src, cls, fn_name):
    tree = ast.parse(src)
    c = next(n for n in tree.body if isinstance(n, ast.ClassDef) and n.name == cls)
    fn = next(n for n in c.body if isinstance(n, ast.FunctionDef) and n.name == fn_name)
    g = CFG(fn)
    # insert edge nodes for test edges
    for n in list(g.nodes):
        if n.kind == "test":
            new_succ = []
            for m, lab in n.succ:
                if lab in (True, False):
                    en = g.new("edge", None, f"edge{lab}"); en.test = n; en.lab = lab
                    en.succ.append((m, None)); new_succ.append((en, lab))
                else: new_succ.append((m, lab))
            n.succ = new_succ
    dom = g.dominators()
    out = []
    for n in g.nodes:
        if n.stmt is None: continue
        for e in ast.walk(n.stmt if not isinstance(n.stmt, (ast.For,)) else n.stmt.iter):
            if isinstance(e, ast.BinOp):
                for side in (e.left, e.right):
                    if is_prod_call(side):
                        q = ast.unparse(side.func.value)
                        guarded = False
                        for d in dom.get(n, ()):
                            if d.kind == "edge" and q in guard_facts(d.test.stmt, d.lab):
                                killed = False
                                for k in g.nodes:
                                    if k.stmt is None or k is n: continue
                                    txt = ast.unparse(k.stmt) if not isinstance(k.stmt, ast.For) else ast.unparse(k.stmt.iter)
                                    if re.search(r"\.(get_current_events|get_event)\(", txt):
                                        if k in g.reach(d, avoid=set()) and n in g.reach(k, avoid={d}) and d in dom.get(k, ()):
                                            killed = True
                                if not killed: guarded = True
                        out.append((fn_name, n.stmt.lineno if hasattr(n.stmt, 'lineno') else 0, ast.unparse(e)[:60], guarded))
    return out

src = pathlib.Path("/repo/acnportal/acnsim/simulator.py").read_text()
def report(src, label):
    rows = []
    for f in ("__init__", "run", "step", "_update_schedules", "_store_actual_charging_rates"):
        rows += analyse(src, "Simulator", f)
    bad = [r for r in rows if not r[3]]
    print(f"{label:22s} uses={len(rows)} unguarded={[(r[0], r[2]) for r in bad]}")
report(src, "original")
patch = open('/verif/notes/candidate-fixes.patch').read()
fixed = src.replace("""            self.pilot_signals = _increase_width(
                self.pilot_signals,
                max(
                    self.event_queue.get_last_timestamp() + 1,
                    self._iteration + schedule_length,
                ),
            )
""", """            target_width = self._iteration + schedule_length
            if not self.event_queue.empty():
                target_width = max(
                    self.event_queue.get_last_timestamp() + 1, target_width
                )
            self.pilot_signals = _increase_width(self.pilot_signals, target_width)
""")
assert fixed != src
report(fixed, "with fix F2")
# benign: invert guard in run()
inv = fixed.replace("""            if not self.event_queue.empty():
                width_increase = self.event_queue.get_last_timestamp() + 1
            else:
                width_increase = self._iteration + 1
            self.pilot_signals = _increase_width(self.pilot_signals, width_increase)""",
"""            if self.event_queue.empty():
                width_increase = self._iteration + 1
            else:
                width_increase = self.event_queue.get_last_timestamp() + 1
            self.pilot_signals = _increase_width(self.pilot_signals, width_increase)""")
assert inv != fixed
report(inv, "benign: inverted if")
brk = fixed.replace("""            if not self.event_queue.empty():
                width_increase = self.event_queue.get_last_timestamp() + 1
            else:
                width_increase = self._iteration + 1
            self.pilot_signals = _increase_width(self.pilot_signals, width_increase)""",
"""            width_increase = self.event_queue.get_last_timestamp() + 1
            self.pilot_signals = _increase_width(self.pilot_signals, width_increase)""")
report(brk, "breaking: guard dropped")

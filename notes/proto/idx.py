import ast, pathlib
root = pathlib.Path('/repo/acnportal')
ARR = {'_voltages','_phase_angles','max_pilot_signals','min_pilot_signals','allowable_rates','is_continuous',
       'pilot_signals','charging_rates','voltages','phases','max_pilot','min_pilot','allowable_pilots',
       'schedule','rates','rate_idx','array_schedule','new_schedule','_new_schedule'}
for p in sorted(root.rglob('*.py')):
    if '/tests/' in str(p): continue
    t = ast.parse(p.read_text())
    for f in ast.walk(t):
        if not isinstance(f, ast.FunctionDef): continue
        for n in ast.walk(f):
            if isinstance(n, ast.Subscript):
                b = n.value
                name = b.attr if isinstance(b, ast.Attribute) else (b.id if isinstance(b, ast.Name) else None)
                if name in ARR:
                    sl = n.slice
                    print(f"{str(p.relative_to('/repo')):52s} {f.name:32s} {name:18s} [{ast.unparse(sl)}]")

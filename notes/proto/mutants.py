"""Design-time calibration data: single-site edits (text replacements against /repo HEAD).
Each: id, property, file, old, new, occurrence (0-based), rule expected to report it."""
A = "acnportal/acnsim/"
G = "acnportal/algorithms/"
M = []


def m(id, prop, file, old, new, rule, occ=0):
    M.append(dict(id=id, prop=prop, file=file, old=old, new=new, occ=occ, rule=rule))


# ---- C01 / C11
m("m01", "C01", A + "events/event.py", 'self.event_type = "Unplug"\n        self.precedence = 0', 'self.event_type = "Unplug"\n        self.precedence = 15', "C01.R1")
m("m02", "C01", A + "events/event.py", "return self.precedence < other.precedence", "return self.precedence > other.precedence", "C01.R1")
m("m03", "C11", A + "events/event_queue.py", "heapq.heappush(self._queue, (event.timestamp, event))", "heapq.heappush(self._queue, (event.precedence, event))", "C01.R2")
m("m04", "C01", A + "simulator.py", "UnplugEvent(event.ev.departure, event.ev)", "UnplugEvent(event.ev.departure + 1, event.ev)", "C01.R4")
m("m05", "C01", A + "network/charging_network.py", "elif session_id == self._EVSEs[station_id].ev.session_id:", "elif session_id != self._EVSEs[station_id].ev.session_id:", "C01.R5")
m("m06", "C01", A + "simulator.py",
  "            self.network.update_pilots(self.pilot_signals, self._iteration, self.period)\n            self._store_actual_charging_rates()\n            self.network.post_charging_update()\n            self._iteration = self._iteration + 1\n",
  "            self._iteration = self._iteration + 1\n            self.network.update_pilots(self.pilot_signals, self._iteration, self.period)\n            self._store_actual_charging_rates()\n            self.network.post_charging_update()\n", "C01.R6")
m("m07", "C01", A + "simulator.py", "self.event_queue.get_current_events(self._iteration)", "self.event_queue.get_current_events(self._iteration + 1)", "C01.R6")
m("m08", "C11", A + "events/event_queue.py", "self._queue[0][0] <= self._timestep", "self._queue[0][0] < self._timestep", "C11.R4")
m("m09", "C11", A + "events/event_queue.py", "return max(self._queue, key=lambda x: x[0])[0]", "return min(self._queue, key=lambda x: x[0])[0]", "C11.R5")
m("m0a", "C11", A + "events/event_queue.py", "heapq.heappush(self._queue, (event.timestamp, event))", "self._queue.append((event.timestamp, event))", "C11.R1")
m("m0b", "C11", A + "events/event_queue.py", "out_obj._queue = event_queue", "out_obj._queue = event_queue[::-1]", "C09.R4")
# ---- C02
m("m10", "C02", A + "models/ev.py", "self._energy_delivered += (charge_rate * voltage) / 1000 * (period / 60)", "self._energy_delivered += (pilot * voltage) / 1000 * (period / 60)", "C02.R2")
m("m11", "C02", A + "simulator.py", "self.peak = max(self.peak, agg)", "self.peak = agg", "C02.R7")
m("m12", "C02", A + "simulator.py", "self.charging_rates[:, self.iteration] = current_rates.T", "self.charging_rates[:, self.iteration - 1] = current_rates.T", "C02.R7")
m("m13", "C02", A + "network/charging_network.py", "new_rate, self._voltages[station_number], period", "new_rate, self._voltages[0], period", "C02.R5")
m("m14", "C02", A + "models/battery.py", "self._current_charge += charge_power * (period / 60)", "self._current_charge += pilot * voltage / 1000 * (period / 60)", "C02.R2")
m("m15", "C02", A + "models/ev.py", "/ 1000 * (period / 60)", "/ 1000 * (period * 60)", "C02.R1")
# ---- C03 / C14
m("m20", "C03", A + "models/battery.py", "charge_power = min([pilot * voltage / 1000, self._max_power, rate_to_full])", "charge_power = min([pilot * voltage / 1000, rate_to_full])", "C03.R1")
m("m21", "C03", A + "models/battery.py", "charge_power = max(\n                    charge_power - abs(np.random.normal(0, self._noise_level)), 0\n                )", "charge_power = charge_power - abs(np.random.normal(0, self._noise_level))", "C03.R3")
m("m22", "C03", A + "models/battery.py", "        if pilot_dsoc > max_dsoc:\n            pilot_dsoc = max_dsoc\n", "", "C03.R4")
m("m23", "C03", A + "models/battery.py", '        if init_charge > capacity:\n            raise ValueError("Initial Charge cannot be greater than capacity.")\n        self._capacity = capacity', "        self._capacity = capacity", "C03.R5")
m("m24", "C14", A + "models/battery.py", "charge_power = min([pilot * voltage / 1000, self._max_power, rate_to_full])", "charge_power = min([pilot * voltage / 1000, self._max_power])", "C14.R1")
m("m25", "C14", A + "models/battery.py", "            self._current_charge = init_charge\n        self._current_charging_power = 0", "            self._current_charge = init_charge", "C14.R4")
m("m26", "C14", A + "models/battery.py", "max_dsoc = self._max_power / self._capacity / (60 / period)", "max_dsoc = self._max_power / self._capacity / (period / 60)", "C14.R2")
m("m27", "C03", A + "models/battery.py", "                    max(charge_power + np.random.normal(0, self._noise_level), 0),\n                    pilot * voltage / 1000,\n                    self._max_power,\n                    rate_to_full,\n                )\n                # ensure that noise does not cause the battery to violate any hard limits.\n                charge_power = min(\n                    [\n                        charge_power,\n                        pilot * voltage / 1000,\n                        self._max_power,\n                        rate_to_full,\n                    ]\n                )",
  "                    max(charge_power + np.random.normal(0, self._noise_level), 0),\n                    self._max_power,\n                    rate_to_full,\n                )", "C03.R2")
# ---- C04
m("m30", "C04", A + "simulator.py", "else [0] * schedule_length\n                for evse_id in self.network.station_ids", "else [0] * schedule_length\n                for evse_id in sorted(self.network.station_ids)", "C04.R2")
m("m31", "C04", A + "simulator.py", "                :, self._iteration : (self._iteration + schedule_length)\n            ] = schedule_matrix\n        else:", "                :, self._iteration + 1 : (self._iteration + 1 + schedule_length)\n            ] = schedule_matrix\n        else:", "C04.R3")
m("m34", "C04", A + "simulator.py", "    new_matrix[:, : a.shape[1]] = a\n", "", "C04.R4")
m("m35", "C04", A + "network/charging_network.py", "            new_rate = pilots[station_number, i]\n", "            if self._EVSEs[ids[station_number]].ev is None:\n                continue\n            new_rate = pilots[station_number, i]\n", "C04.R6")
m("m36", "C04", A + "simulator.py", "                UserWarning,\n            )\n        if self._iteration + schedule_length", "                UserWarning,\n            )\n            return\n        if self._iteration + schedule_length", "C04.R7")
m("m37", "C04", A + "simulator.py", '        schedule_lengths = set(len(x) for x in new_schedule.values())\n        if len(schedule_lengths) > 1:\n            raise InvalidScheduleError("All schedules should have the same length.")\n        schedule_length = schedule_lengths.pop()\n',
  '        schedule_lengths = set(len(x) for x in new_schedule.values())\n        schedule_length = max(schedule_lengths)\n        self.pilot_signals = _increase_width(self.pilot_signals, self._iteration + schedule_length)\n        if len(schedule_lengths) > 1:\n            raise InvalidScheduleError("All schedules should have the same length.")\n', "C04.R1")
# ---- C05
m("m40", "C05", A + "simulator.py", "                    >= self.max_recompute\n", "                    > self.max_recompute\n", "C05.R1")
m("m41", "C05", A + "simulator.py", "                or self.max_recompute is not None\n                and (", "                or self.max_recompute is not None\n                or (", "C05.R1")
m("m42", "C05", A + "simulator.py", "evs = copy.deepcopy(self.network.active_evs)", "evs = self.network.active_evs", "C05.R4")
m("m43", "C05", A + "interface.py", "                ev.requested_energy,\n                ev.energy_delivered,", "                ev.energy_delivered,\n                ev.requested_energy,", "C05.R5")
m("m44", "C05", A + "interface.py", "            network._phase_angles,\n            network._voltages,", "            network._voltages,\n            network._phase_angles,", "C05.R5")
m("m45", "C05", A + "network/charging_network.py", "            evse.ev\n            for evse in self._EVSEs.values()\n            if evse.ev is not None and not evse.ev.fully_charged", "            evse.ev\n            for evse in self._EVSEs.values()\n            if evse.ev is not None", "C05.R6")
m("m46", "C05", A + "simulator.py", "                new_schedule = self.scheduler.run()\n                self._update_schedules(new_schedule)", "                self._resolve = False\n                new_schedule = self.scheduler.run()\n                self._update_schedules(new_schedule)", "C05.R3")
m("m47", "C05", A + "interface.py", "        i = self._simulator.iteration - 1\n", "        i = self._simulator.iteration - 2\n", "C05.R7")
m("m48", "C05", A + "interface.py", "return deepcopy(self._infrastructure_info())", "return self._infrastructure_info()", "C05.R4")
# ---- C06
m("m50", "C06", A + "network/charging_network.py", "np.maximum(violation_tolerance, rel_magnitude_tol)", "np.minimum(violation_tolerance, rel_magnitude_tol)", "C06.R1")
m("m51", "C06", G + "utils.py", "violation_tolerance: float = 1e-5,", "violation_tolerance: float = 1e-3,", "C06.R2")
m("m52", "C06", G + "utils.py", "phase_in_rad = np.deg2rad(infrastructure.phases)", "phase_in_rad = infrastructure.phases", "C06.R3")
m("m53", "C06", A + "network/charging_network.py", "        return np.all(\n            np.tile(", "        return np.any(\n            np.tile(", "C06.R5")
m("m54", "C06", A + "interface.py", "schedule_matrix, linear, violation_tolerance, relative_tolerance\n", "schedule_matrix, linear, relative_tolerance, violation_tolerance\n", "C06.R6")
m("m55", "C06", G + "utils.py", "np.linalg.norm(np.abs(v) @ rates, axis=0)", "np.linalg.norm(np.abs(v @ rates), axis=0)", "C06.R4")
m("m56", "C06", G + "utils.py", "line_currents <= infrastructure.constraint_limits[j] + tol[j]", "line_currents <= infrastructure.constraint_limits[j] - tol[j]", "C06.R1")
# ---- C07
m("m60", "C07", G + "sorted_algorithms.py", "            ub: float = min(\n                session.max_rates[0], self.interface.remaining_amp_periods(session)\n            )", "            ub: float = session.max_rates[0]", "C07.R2")
m("m61", "C07", G + "sorted_algorithms.py", "                else:\n                    schedule[i] = allowable_pilots[i][rate_idx[i]]", "                else:\n                    pass", "C07.R3")
m("m62", "C07", G + "sorted_algorithms.py", "            if (_ub - _lb) <= eps:\n                return _lb", "            if (_ub - _lb) <= eps:\n                return _ub", "C07.R3")
m("m64", "C07", G + "preprocessing.py", "session.max_rates = np.minimum(session.max_rates, infrastructure.max_pilot[i])", "session.max_rates = np.maximum(session.max_rates, infrastructure.max_pilot[i])", "C07.R2")
m("m65", "C07", G + "sorted_algorithms.py", "                new_schedule[station_index] = 0\n                break", "                new_schedule[station_index] = allowable_pilots[0]\n                break", "C07.R3")
m("m66", "C07", G + "sorted_algorithms.py", "        active_sessions = self.run_preprocessing(active_sessions, infrastructure)\n        array_schedule = self.round_robin(active_sessions, infrastructure)", "        array_schedule = self.round_robin(active_sessions, infrastructure)", "C07.R1")
m("m67", "C07", G + "sorted_algorithms.py", "            if infrastructure.is_continuous[station_index]:\n                charging_rate: float = self.max_feasible_rate(", "            if not infrastructure.is_continuous[station_index]:\n                charging_rate: float = self.max_feasible_rate(", "C07.R4")
m("m68", "C07", G + "utils.py", "amp_hours = session.remaining_demand * 1000 / infrastructure.voltages[i]", "amp_hours = session.remaining_demand / infrastructure.voltages[i]", "C07.R7")
# ---- C08
m("m70", "C08", G + "sorted_algorithms.py", "return sorted(evs, key=lambda x: x.arrival, reverse=True)", "return sorted(evs, key=lambda x: x.arrival)", "C08.R1")
m("m71", "C08", G + "sorted_algorithms.py", "return sorted(evs, key=remaining_processing_time, reverse=True)", "return sorted(evs, key=remaining_processing_time)", "C08.R1")
m("m72", "C08", G + "sorted_algorithms.py", "                    queue.append(session)", "                    queue.appendleft(session)", "C08.R4")
m("m74", "C08", G + "uncontrolled_charging.py", "self.interface.max_pilot_signal(session.station_id)", "self.interface.min_pilot_signal(session.station_id)", "C08.R5")
m("m75", "C08", G + "sorted_algorithms.py", "lax = (ev.estimated_departure - iface.current_time) - (", "lax = (ev.estimated_departure - iface.current_time) + (", "C08.R1")
m("m76", "C08", G + "sorted_algorithms.py", "        for session in queue:\n            station_index = infrastructure.get_station_index(session.station_id)\n            ub: float", "        for session in active_sessions:\n            station_index = infrastructure.get_station_index(session.station_id)\n            ub: float", "C08.R2")
# ---- C09
m("m80", "C09", A + "simulator.py", '            "_iteration",\n            "_resolve",\n            "_last_schedule_update",\n            "schedule_history",', '            "_iteration",\n            "_last_schedule_update",\n            "schedule_history",', "C09.R1")
m("m81", "C09", A + "models/ev.py", 'out_obj._energy_delivered = attribute_dict["_energy_delivered"]', 'out_obj._energy_delivered = attribute_dict["_current_charging_rate"]', "C09.R1")
m("m82", "C09", A + "events/event.py", '        ev, loaded_dict = BaseSimObj._build_from_id(\n            attribute_dict["ev"], context_dict, loaded_dict=loaded_dict\n        )\n        out_obj = cls(attribute_dict["timestamp"], ev)', '        ev, _ = BaseSimObj._build_from_id(\n            attribute_dict["ev"], context_dict, loaded_dict={}\n        )\n        out_obj = cls(attribute_dict["timestamp"], ev)', "C09.R3")
m("m83", "C09", A + "models/battery.py", '        out_obj._current_charge = attribute_dict["_current_charge"]\n', "", "C09.R1")
m("m84", "C09", A + "models/evse.py", '        nn_attr_lst = ["_station_id", "_current_pilot", "is_continuous"]', '        nn_attr_lst = ["_station_id", "is_continuous"]', "C09.R1")
# ---- C10 / C12
m("m91", "C12", A + "network/charging_network.py", "        self.constraint_matrix = constraint_frame.reindex(\n            columns=self.station_ids\n        ).to_numpy()", "        self.constraint_matrix = constraint_frame.to_numpy()", "C12.R2")
m("m100", "C12", A + "network/charging_network.py", "        self.magnitudes = np.delete(self.magnitudes, del_index, axis=0)\n", "", "C12.R1")
m("m101", "C12", A + "network/charging_network.py", "        if self.constraint_matrix is not None:\n            raise EVSERegistrationError(", "        if False:\n            raise EVSERegistrationError(", "C12.R4")
m("m102", "C12", A + "network/charging_network.py", "            constraint_indices: List[int] = [\n                i\n                for i in range(len(self.constraint_index))\n                if self.constraint_index[i] in constraints\n            ]", "            constraint_indices: List[int] = [\n                self.constraint_index.index(c) for c in constraints\n            ]", "C12.R6")
m("m103", "C12", A + "network/current.py", "return Current(self.add(-1 * other, fill_value=0))", "return Current(self.add(-1 * other))", "C12.R5")
# ---- C13
m("m110", "C13", A + "models/evse.py", "        if self._valid_rate(pilot):\n            self._current_pilot = pilot\n", "        self._current_pilot = pilot\n        if self._valid_rate(pilot):\n", "C13.R1")
m("m111", "C13", A + "models/evse.py", "        if self.ev is None:\n            self._ev = ev\n        else:", "        if True:\n            self._ev = ev\n        else:", "C13.R2")
m("m112", "C13", A + "models/evse.py", "return self.min_rate <= pilot + atol and pilot - atol <= self.max_rate", "return self.min_rate <= pilot - atol and pilot - atol <= self.max_rate", "C13.R4")
m("m113", "C13", A + "models/evse.py", "        allowable_rates.add(0)\n", "", "C13.R5")
m("m114", "C13", A + "network/charging_network.py", "            [self._EVSEs[station_id].max_rate for station_id in station_ids]", "            [self._EVSEs[station_id].min_rate for station_id in station_ids]", "C13.R6")
m("m115", "C13", A + "models/evse.py", "return [self._deadband_end, self.max_rate]", "return [0, self.max_rate]", "C13.R4")
# ---- C15
m("m130", "C15", A + "events/acndata_events.py", "max_battery_power * (departure - arrival) * (period / 60)", "max_battery_power * (departure - arrival) * (period * 60)", "C15.R1")
m("m131", "C15", A + "events/acndata_events.py", 'arrival = _datetime_to_timestamp(d["connectionTime"], period) - offset\n    departure = _datetime_to_timestamp(d["disconnectTime"], period) - offset', 'arrival = _datetime_to_timestamp(d["disconnectTime"], period) - offset\n    departure = _datetime_to_timestamp(d["connectionTime"], period) - offset', "C15.R4")
m("m132", "C15", A + "events/acndata_events.py", 'departure = _datetime_to_timestamp(d["disconnectTime"], period) - offset', 'departure = _datetime_to_timestamp(d["disconnectTime"], period, round_up=True) - offset', "C15.R3")
m("m133", "C15", A + "events/acndata_events.py", "return EV(arrival, departure, delivered_energy, station_id, session_id, batt)", "return EV(arrival, departure, delivered_energy, session_id, station_id, batt)", "C15.R2")
m("m134", "C15", A + "events/stochastic_events.py", "max_feasible = max_battery_power * duration", "max_feasible = max_battery_power * duration * period_per_hour", "C15.R1")
m("m135", "C15", A + "events/acndata_events.py", "    ts = dt.timestamp() / (60 * period)", "    ts = dt.timestamp() / (3600 * period)", "C15.R1")
# ---- C16
S = A + "network/sites/"
m("m141", "C16", S + "caltech_acn.py", 'get_evse_by_type(evse_id, evse_type["AV"]), voltage, -90)', 'get_evse_by_type(evse_id, evse_type["AV"]), voltage, 90)', "C16.F1")
m("m142", "C16", S + "caltech_acn.py", "secondary_side_constr = transformer_cap * 1000 / 3 / 120", "secondary_side_constr = transformer_cap * 1000 / 3 / 208 * 3", "C16.F2")
m("m144", "C16", S + "office001_acn.py", "I3b = BC - AB", "I3b = BC - CA", "C16.F2")
m("m145", "C16", S + "jpl_acn.py", "secondary_side_constr = cap * 1000 / 3 / secondary_voltage\n", "secondary_side_constr = cap * 1000 / secondary_voltage\n", "C16.F2")
m("m146", "C16", S + "jpl_acn.py", 'currents["c"] = currents["ca"] - currents["bc"]', 'currents["c"] = currents["ca"] - currents["ab"]', "C16.F2")
m("m147", "C16", S + "caltech_acn.py", '    CA = Current(CA_ids)\n', '    CA = Current(CA_ids[:-1])\n', "C16.F3")
# ---- C17
T = "acnportal/signals/tariffs/tou_tariff.py"
m("m150", "C17", T, "and s.start <= (date_time.month, date_time.day) <= s.end", "and s.start <= (date_time.month, date_time.day) < s.end", "C17.S1")
m("m151", "C17", T, 'self.dow_mask = [True] * 5 + [False] * 2', 'self.dow_mask = [True] * 4 + [False] * 3', "C17.S1")
m("m152", "C17", T, "for r in sorted(tariff_schedule.tariffs, reverse=True):", "for r in sorted(tariff_schedule.tariffs):", "C17.S1")
m("m153", "C17", T, "self.get_tariff(start + t * timedelta(minutes=period))", "self.get_tariff(start + t * timedelta(hours=period))", "C17.S1")
m("m154", "C17", A + "interface.py", "            price_start = self._simulator.start + timedelta(minutes=self.period) * start\n            return np.array(", "            price_start = self._simulator.start\n            return np.array(", "C17.S2")
m("m155", "C17", T, "s.end = (12, 31)", "s.end = (12, 30)", "C17.S1")
m("m156", "C17", A + "analysis/__init__.py", "return np.array(energy_costs).dot(agg) * (sim.period / 60)", "return np.array(energy_costs).dot(agg)", "C17.S2")
# ---- C18
AN = A + "analysis/__init__.py"
m("m160", "C18", AN, "return sim.network._voltages.T.dot(sim.charging_rates) / 1000", "return sim.charging_rates.sum(axis=0) * 208 / 1000", "C18.power")
m("m161", "C18", AN, "    constraint_ids = [\n        constraint_id\n        for constraint_id in sim.network.constraint_index\n        if constraint_id in constraint_ids\n    ]\n", "    constraint_ids = list(constraint_ids)\n", "C18.order")
m("m162", "C18", AN, "return total_delivered / total_requested", "return total_requested / total_delivered", "C18.proportion")
m("m163", "C18", AN, "return (np.max(currents, axis=0) - np.mean(currents, axis=0)) / np.mean(", "return (np.min(currents, axis=0) - np.mean(currents, axis=0)) / np.mean(", "C18.nema")
m("m164", "C18", AN, "for i in range(sim.iteration)", "for i in range(sim.iteration + 1)", "C18.datetimes")
m("m166", "C18", AN, "return sim.charging_rates.sum(axis=0)", "return sim.charging_rates.sum(axis=1)", "C18.current")
# ---- C19
SN = "acnportal/contrib/acnsim/network/stochastic_network.py"
m("m170", "C19", SN, "self.waiting_queue.popitem(last=False)", "self.waiting_queue.popitem(last=True)", "C19.R3")
m("m171", "C19", SN, "available_spots = self.available_evses()", "available_spots = list(self._EVSEs.keys())", "C19.R2")
m("m172", "C19", SN, "                    next_ev.update_station_id(station_id)\n                    super().plugin(next_ev)\n", "                    next_ev.update_station_id(station_id)\n", "C19.R4")
m("m173", "C19", SN, "                if len(self.waiting_queue) > 0:\n                    self.unplug(ev.station_id, ev.session_id)", "                if True:\n                    self.unplug(ev.station_id, ev.session_id)", "C19.R6")
m("m174", "C19", A + "simulator.py", "            self.network.post_charging_update()\n", "", "C19.R7")
m("m175", "C19", SN, "            del self.waiting_queue[session_id]\n            self.never_charged += 1", "            del self.waiting_queue[session_id]", "C19.R5")
# ---- C20
DC = "acnportal/acndata/data_client.py"
UT = "acnportal/acndata/utils.py"
m("m180", "C20", DC, 'if "next" in payload["_links"]:', 'if False and "next" in payload["_links"]:', "C20.R2")
m("m181", "C20", DC, 'for s in payload["_items"]:', 'for s in payload["_items"][:1]:', "C20.R2")
m("m182", "C20", DC, '        if sort is not None:\n            args.append("sort={0}".format(sort))\n', "", "C20.R3")
m("m183", "C20", UT, 'return dt.astimezone(pytz.utc).strftime("%a, %d %b %Y %H:%M:%S GMT")', 'return dt.strftime("%a, %d %b %Y %H:%M:%S GMT")', "C20.R4")
m("m184", "C20", UT, 'if isinstance(doc[field], dict) and "timestamps" in doc[field]:', 'if False and isinstance(doc[field], dict) and "timestamps" in doc[field]:', "C20.R5")
m("m185", "C20", UT, 'dt = pytz.UTC.localize(datetime.strptime(ds, "%a, %d %b %Y %H:%M:%S GMT"))', 'dt = pytz.UTC.localize(datetime.strptime(ds, "%a, %d %b %Y %I:%M:%S GMT"))', "C20.R4")
m("m186", "C20", DC, '        if site not in {"caltech", "jpl", "office001"}:\n            raise ValueError(\n                "Invalid site name. Must be either \'caltech\', \'jpl\', or \'office001\'."\n            )\n\n        limit = 100', "        limit = 100", "C20.R1")

"""Throwaway prototype: constant-propagate the site factories from their AST (no repo import)."""
import ast, pathlib, math
from fractions import Fraction


class Sym:
    """linear form c0 + sum(ci * sym_i) with float coefficients (caps stay symbolic)"""

    def __init__(self, const=0.0, terms=None):
        self.c = const
        self.t = dict(terms or {})

    @staticmethod
    def lift(x):
        return x if isinstance(x, Sym) else Sym(float(x))

    def __add__(s, o):
        o = Sym.lift(o); t = dict(s.t)
        for k, v in o.t.items(): t[k] = t.get(k, 0) + v
        return Sym(s.c + o.c, t)
    __radd__ = __add__

    def __mul__(s, o):
        o = Sym.lift(o)
        if o.t and s.t: raise ValueError("nonlinear")
        if o.t: s, o = o, s
        return Sym(s.c * o.c, {k: v * o.c for k, v in s.t.items()})
    __rmul__ = __mul__

    def __truediv__(s, o):
        o = Sym.lift(o)
        if o.t: raise ValueError("div by symbol")
        return s * (1.0 / o.c)

    def __repr__(s):
        return " + ".join([f"{s.c:g}"] * (1 if s.c or not s.t else 0) + [f"{v:.6g}*{k}" for k, v in s.t.items()])


class Cur:
    def __init__(self, coef): self.coef = dict(coef)
    def __add__(s, o):
        c = dict(s.coef)
        for k, v in o.coef.items(): c[k] = c.get(k, 0) + v
        return Cur(c)
    def __sub__(s, o): return s + Cur({k: -v for k, v in o.coef.items()})
    def scale(s, f): return Cur({k: v * f for k, v in s.coef.items()})


class Net:
    def __init__(self): self.evses = []; self.cons = []
    def register_evse(self, evse, voltage, angle): self.evses.append((evse[0], evse[1], voltage, angle))
    def add_constraint(self, cur, limit, name=None): self.cons.append((name, cur, limit))


class Ret(Exception):
    def __init__(self, v): self.v = v


class Ev:
    def __init__(self, module_tree):
        self.funcs = {n.name: n for n in module_tree.body if isinstance(n, ast.FunctionDef)}

    def call_fn(self, fn, args, kwargs, closure):
        env = dict(closure)
        params = [a.arg for a in fn.args.args]
        defaults = fn.args.defaults
        for p, d in zip(params[len(params) - len(defaults):], defaults):
            env[p] = self.ex(d, closure)
        for p, a in zip(params, args): env[p] = a
        env.update(kwargs)
        try:
            self.block(fn.body, env)
        except Ret as r:
            return r.v
        return None

    def block(self, stmts, env):
        for s in stmts: self.st(s, env)

    def st(self, s, env):
        if isinstance(s, ast.Expr):
            if isinstance(s.value, ast.Constant): return
            self.ex(s.value, env)
        elif isinstance(s, ast.Assign):
            v = self.ex(s.value, env)
            for t in s.targets:
                if isinstance(t, ast.Name): env[t.id] = v
                elif isinstance(t, ast.Subscript): self.ex(t.value, env)[self.ex(t.slice, env)] = v
                else: raise NotImplementedError(ast.dump(t))
        elif isinstance(s, ast.If):
            self.block(s.body if self.ex(s.test, env) else s.orelse, env)
        elif isinstance(s, ast.For):
            for x in self.ex(s.iter, env):
                env[s.target.id] = x
                self.block(s.body, env)
        elif isinstance(s, ast.FunctionDef):
            env[s.name] = ("closure", s, env)
        elif isinstance(s, ast.Return):
            raise Ret(self.ex(s.value, env) if s.value else None)
        else:
            raise NotImplementedError(type(s).__name__)

    def ex(self, e, env):
        if isinstance(e, ast.Constant): return e.value
        if isinstance(e, ast.Name):
            if e.id in env: return env[e.id]
            if e.id in self.funcs: return ("closure", self.funcs[e.id], {})
            if e.id in ("ChargingNetwork", "Current", "get_evse_by_type", "dict", "print", "range"): return ("builtin", e.id)
            raise NameError(e.id)
        if isinstance(e, ast.List): return [self.ex(x, env) for x in e.elts]
        if isinstance(e, ast.Dict): return {self.ex(k, env): self.ex(v, env) for k, v in zip(e.keys, e.values)}
        if isinstance(e, ast.ListComp) or isinstance(e, ast.DictComp):
            g = e.generators[0]; out = [] if isinstance(e, ast.ListComp) else {}
            for x in self.ex(g.iter, env):
                env2 = dict(env); env2[g.target.id] = x
                if all(self.ex(c, env2) for c in g.ifs):
                    if isinstance(e, ast.ListComp): out.append(self.ex(e.elt, env2))
                    else: out[self.ex(e.key, env2)] = self.ex(e.value, env2)
            return out
        if isinstance(e, ast.Subscript): return self.ex(e.value, env)[self.ex(e.slice, env)]
        if isinstance(e, ast.UnaryOp) and isinstance(e.op, ast.USub): return -self.ex(e.operand, env)
        if isinstance(e, ast.UnaryOp) and isinstance(e.op, ast.Not): return not self.ex(e.operand, env)
        if isinstance(e, ast.Compare):
            l = self.ex(e.left, env); r = self.ex(e.comparators[0], env); op = e.ops[0]
            if isinstance(op, ast.NotIn): return l not in r
            if isinstance(op, ast.In): return l in r
            raise NotImplementedError
        if isinstance(e, ast.BinOp):
            l, r = self.ex(e.left, env), self.ex(e.right, env)
            if isinstance(l, Cur) or isinstance(r, Cur):
                if isinstance(e.op, ast.Add): return l + r
                if isinstance(e.op, ast.Sub): return l - r
                if isinstance(e.op, ast.Mult): return r.scale(l) if isinstance(r, Cur) else l.scale(r)
                raise NotImplementedError
            if isinstance(l, list) and isinstance(e.op, ast.Add): return l + r
            ops = {ast.Add: lambda a, b: a + b, ast.Sub: lambda a, b: a + (-1) * b, ast.Mult: lambda a, b: a * b, ast.Div: lambda a, b: a / b}
            if isinstance(l, Sym) or isinstance(r, Sym): l, r = Sym.lift(l), Sym.lift(r)
            return ops[type(e.op)](l, r)
        if isinstance(e, ast.Attribute):
            return ("attr", self.ex(e.value, env) if not (isinstance(e.value, ast.Name) and e.value.id == "np") else "np", e.attr)
        if isinstance(e, ast.Call):
            f = self.ex(e.func, env)
            args = [self.ex(a, env) for a in e.args]; kw = {k.arg: self.ex(k.value, env) for k in e.keywords}
            if f[0] == "closure": return self.call_fn(f[1], args, kw, f[2])
            if f[0] == "builtin":
                if f[1] == "Current": return Cur({i: 1 for i in args[0]})
                if f[1] == "get_evse_by_type": return (args[0], args[1])
                if f[1] == "dict": return {}
                if f[1] == "print": return None
            if f[0] == "attr":
                obj, name = f[1], f[2]
                if obj == "np" and name == "sqrt": return math.sqrt(args[0])
                if isinstance(obj, str) and name == "format": return obj.format(*args)
                if isinstance(obj, Net): return getattr(obj, name)(*args, **kw)
            if f[0] == "nettype": return Net()
            raise NotImplementedError(ast.unparse(e))
        raise NotImplementedError(type(e).__name__)


def evaluate(path, fname, **overrides):
    tree = ast.parse(pathlib.Path(path).read_text())
    ev = Ev(tree)
    fn = ev.funcs[fname]
    kw = {"network_type": ("nettype",)}
    kw.update(overrides)
    return ev.call_fn(fn, [], kw, {})


if __name__ == "__main__":
    S = "/repo/acnportal/acnsim/network/sites/"
    for path, fname, caps in [(S + "caltech_acn.py", "caltech_acn", {"transformer_cap": Sym(0, {"cap": 1})}),
                              (S + "office001_acn.py", "office001_acn", {"transformer_cap": Sym(0, {"cap": 1})}),
                              (S + "jpl_acn.py", "jpl_acn", {"first_transformer_cap": Sym(0, {"cap1": 1}), "third_fourth_transformer_cap": Sym(0, {"cap34": 1})})]:
        for basic in (False, True):
            net = evaluate(path, fname, basic_evse=basic, **caps)
            ang = {i: a for i, _, _, a in net.evses}
            print(fname, basic, len(net.evses), "evses", sorted(set(ang.values())), {t for _, t, _, _ in net.evses})
            for name, cur, lim in net.cons:
                grp = {}
                for k, v in cur.coef.items():
                    if v: grp[(ang[k], v)] = grp.get((ang[k], v), 0) + 1
                if "Secondary" in name or "Pod" in name or "SP1" in name:
                    print("   ", name, "limit", lim, grp)

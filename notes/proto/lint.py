import ast, pathlib
root = pathlib.Path('/repo/acnportal')
EXC = ('Error','Exception','Warning')
for p in sorted(root.rglob('*.py')):
    if '/tests/' in str(p): continue
    t = ast.parse(p.read_text())
    for n in ast.walk(t):
        if isinstance(n, ast.Expr) and isinstance(n.value, ast.Call):
            f = n.value.func
            name = f.id if isinstance(f, ast.Name) else (f.attr if isinstance(f, ast.Attribute) else '')
            if name.endswith(EXC):
                print("UNRAISED", p.relative_to('/repo'), n.lineno, ast.unparse(n)[:80])
    for f in ast.walk(t):
        if isinstance(f, ast.FunctionDef):
            rets = [r for r in ast.walk(f) if isinstance(r, ast.Return)]
            # only own returns (skip nested)
            vals = [r for r in rets if r.value is not None and not (isinstance(r.value, ast.Constant) and r.value.value is None)]
            if vals:
                # can fall off end? crude: last stmt is not return/raise and not if/else both returning
                def terminates(stmts):
                    if not stmts: return False
                    s = stmts[-1]
                    if isinstance(s, (ast.Return, ast.Raise)): return True
                    if isinstance(s, ast.If): return terminates(s.body) and terminates(s.orelse)
                    if isinstance(s, ast.Try): return terminates(s.body) and all(terminates(h.body) for h in s.handlers) or (s.finalbody and terminates(s.finalbody))
                    if isinstance(s, ast.While) and isinstance(s.test, ast.Constant) and s.test.value is True: return True
                    if isinstance(s, ast.With): return terminates(s.body)
                    return False
                if not terminates(f.body) and not any(isinstance(x,(ast.Yield,ast.YieldFrom)) for x in ast.walk(f)):
                    print("MIXED-RETURN", p.relative_to('/repo'), f.lineno, f.name)

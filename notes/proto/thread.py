import ast, pathlib
root = pathlib.Path('/repo/acnportal')
for p in sorted(root.rglob('*.py')):
    if '/tests/' in str(p): continue
    t = ast.parse(p.read_text())
    for f in ast.walk(t):
        if isinstance(f,(ast.FunctionDef,)):
            for n in ast.walk(f):
                if isinstance(n, ast.Call) and isinstance(n.func, ast.Attribute) and n.func.attr in ('_build_from_id','_to_registry','_from_registry'):
                    # find enclosing statement
                    kw = {k.arg: ast.unparse(k.value) for k in n.keywords}
                    print(f"{p.relative_to('/repo')}:{n.lineno} in {f.name}: {n.func.attr} args={[ast.unparse(a) for a in n.args]} kw={kw}")

"""Throwaway prototype: noise taint with clamp sanitisers (C03-R3)."""
import ast, json, pathlib
CLEAN = (False, False)
def is_noise(e):
    return isinstance(e, ast.Call) and "random" in ast.unparse(e.func)
class T:
    def __init__(self, fn): self.fn = fn; self.issues = []
    def val(self, e, env):
        if is_noise(e): return (True, True)
        if isinstance(e, ast.Name): return env.get(e.id, CLEAN)
        if isinstance(e, ast.Attribute): return env.get(ast.unparse(e), CLEAN)
        if isinstance(e, ast.Constant): return CLEAN
        if isinstance(e, ast.UnaryOp):
            d, u = self.val(e.operand, env); return (u, d) if isinstance(e.op, ast.USub) else (d, u)
        if isinstance(e, ast.BinOp):
            (ld, lu), (rd, ru) = self.val(e.left, env), self.val(e.right, env)
            if isinstance(e.op, ast.Add): return (ld or rd, lu or ru)
            if isinstance(e.op, ast.Sub): return (ld or ru, lu or rd)
            return (ld or rd, lu or ru)  # scaling by positive quantities
        if isinstance(e, ast.Call):
            name = ast.unparse(e.func).split(".")[-1]
            args = e.args[0].elts if len(e.args) == 1 and isinstance(e.args[0], (ast.List, ast.Tuple)) else e.args
            vs = [self.val(a, env) for a in args]
            if name == "abs": return (False, vs[0][0] or vs[0][1])
            if name in ("max", "maximum"): return (all(v[0] for v in vs), any(v[1] for v in vs))
            if name in ("min", "minimum"): return (any(v[0] for v in vs), all(v[1] for v in vs))
            return (any(v[0] for v in vs), any(v[1] for v in vs))
        if isinstance(e, (ast.List, ast.Tuple)):
            vs = [self.val(a, env) for a in e.elts]; return (any(v[0] for v in vs), any(v[1] for v in vs))
        return CLEAN
    def sink(self, node, what, v):
        if v != CLEAN:
            self.issues.append(f"{self.fn.name}:{node.lineno}: noise reaches {what} " + ("without a lower clamp" if v[0] else "") + (" without an upper clamp" if v[1] else ""))
    def block(self, stmts, env):
        for s in stmts:
            if isinstance(s, ast.Assign):
                v = self.val(s.value, env)
                for t in s.targets:
                    key = t.id if isinstance(t, ast.Name) else ast.unparse(t)
                    env[key] = v
                    if key in ("self._current_charge", "self._current_charging_power"): self.sink(s, key, v)
            elif isinstance(s, ast.AugAssign):
                key = s.target.id if isinstance(s.target, ast.Name) else ast.unparse(s.target)
                cur = env.get(key, CLEAN); v = self.val(s.value, env)
                if isinstance(s.op, ast.Add): nv = (cur[0] or v[0], cur[1] or v[1])
                elif isinstance(s.op, ast.Sub): nv = (cur[0] or v[1], cur[1] or v[0])
                else: nv = (cur[0] or v[0], cur[1] or v[1])
                env[key] = nv
                if key in ("self._current_charge", "self._current_charging_power"): self.sink(s, key, nv)
            elif isinstance(s, ast.Return) and s.value is not None:
                self.sink(s, "the returned rate", self.val(s.value, env))
            elif isinstance(s, ast.If):
                a, b = dict(env), dict(env)
                self.block(s.body, a); self.block(s.orelse, b)
                for k in set(a) | set(b):
                    x, y = a.get(k, CLEAN), b.get(k, CLEAN); env[k] = (x[0] or y[0], x[1] or y[1])
def run(src, label):
    tree = ast.parse(src); out = []
    for fn in ast.walk(tree):
        if isinstance(fn, ast.FunctionDef) and fn.name in ("charge", "_charge", "_charge_stepwise"):
            t = T(fn); t.block(fn.body, {}); out += t.issues
    print(f"{label:26s}", out if out else "clean")
src = pathlib.Path("/repo/acnportal/acnsim/models/battery.py").read_text()
res = json.load(open("/verif/notes/mutant-calibration.json"))
run(src, "original (expects F1)")
fixed = src.replace("            curr_soc -= abs(scaled_noise)\n", "            curr_soc = max(curr_soc - abs(scaled_noise), self._soc)\n")
run(fixed, "with fix F1")
for k in ("m21", "m27"):
    run(fixed.replace(res[k]["old"], res[k]["new"], 1), k + " on fixed tree")

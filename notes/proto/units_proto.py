"""Throwaway prototype: dimension+scale inference over ast (feasibility probe)."""
import ast, sys, pathlib, math
from fractions import Fraction

BASE = ("A", "V", "T", "USD", "DEG")  # current, voltage, time, money, angle


class U:
    """unit = (exponent vector, scale to SI)"""
    __slots__ = ("d", "k")

    def __init__(self, d=None, k=1.0):
        self.d = tuple(d) if d else (0,) * len(BASE)
        self.k = float(k)

    def __mul__(s, o):
        return U([a + b for a, b in zip(s.d, o.d)], s.k * o.k)

    def __truediv__(s, o):
        return U([a - b for a, b in zip(s.d, o.d)], s.k / o.k)

    def same(s, o):
        return s.d == o.d and abs(math.log(s.k / o.k)) < 1e-9

    def __repr__(s):
        n = "*".join(f"{b}^{e}" if e != 1 else b for b, e in zip(BASE, s.d) if e) or "1"
        return f"<{n} x{s.k:g}>"


def base(n):
    d = [0] * len(BASE)
    d[BASE.index(n)] = 1
    return U(d)


ONE = U()
A, V, SEC, USD, DEG = map(base, BASE)
MIN = U(SEC.d, 60)
H = U(SEC.d, 3600)
W = A * V
KW = U(W.d, 1000)
KWH = KW * H
NAMED = {"1": ONE, "A": A, "V": V, "min": MIN, "h": H, "kW": KW, "kWh": KWH, "deg": DEG,
         "$/kWh": USD / KWH, "$/kW": USD / KW}
CONV = {1000: U(k=1000), 60: U(k=60), 3600: U(k=3600)}  # literal conversions: x/1000 => unit*1000


class Checker(ast.NodeVisitor):
    def __init__(self, env, attr_env, call_env, where):
        self.env = dict(env)  # local names
        self.attr = attr_env  # 'self._capacity' style dotted -> unit
        self.calls = call_env  # callee last-name -> unit
        self.where = where
        self.issues = []
        self.ops = 0
        self.ret = []

    def issue(self, node, msg):
        self.issues.append(f"{self.where}:{node.lineno}: {msg}: `{ast.unparse(node)[:90]}`")

    def dotted(self, n):
        if isinstance(n, ast.Name):
            return n.id
        if isinstance(n, ast.Attribute):
            b = self.dotted(n.value)
            return f"{b}.{n.attr}" if b else None
        if isinstance(n, ast.Subscript):
            return self.dotted(n.value)
        return None

    def u(self, n):
        """unit of expression or None (unknown)"""
        if isinstance(n, ast.Constant):
            if isinstance(n.value, (int, float)) and not isinstance(n.value, bool):
                return ("lit", n.value)
            return None
        if isinstance(n, (ast.Name, ast.Attribute, ast.Subscript)):
            d = self.dotted(n)
            if isinstance(n, ast.Name) and n.id in self.env:
                return self.env[n.id]
            if d in self.attr:
                return self.attr[d]
            # attribute by last name
            if isinstance(n, ast.Attribute) and ("*." + n.attr) in self.attr:
                return self.attr["*." + n.attr]
            if isinstance(n, ast.Subscript):
                return self.u(n.value)
            return None
        if isinstance(n, ast.UnaryOp):
            return self.u(n.operand)
        if isinstance(n, ast.BinOp):
            l, r = self.u(n.left), self.u(n.right)
            if isinstance(n.op, (ast.Mult, ast.Div, ast.MatMult)):
                div = isinstance(n.op, ast.Div)
                def conv(x):
                    if isinstance(x, tuple):
                        return CONV.get(x[1])  # None => pure number
                    return x
                if isinstance(l, tuple) and isinstance(r, tuple):
                    return ("lit", (l[1] / r[1]) if div else l[1] * r[1]) if not (l[1] in CONV or r[1] in CONV) else self._litlit(l, r, div)
                lu = conv(l) if isinstance(l, tuple) else l
                ru = conv(r) if isinstance(r, tuple) else r
                if isinstance(l, tuple) and lu is None: lu = ONE
                if isinstance(r, tuple) and ru is None: ru = ONE
                if lu is None or ru is None:
                    return None
                self.ops += 1
                # literal conversions invert: value/1000 => unit*1000
                if isinstance(r, tuple) and r[1] in CONV:
                    return lu * ru if div else lu / ru
                if isinstance(l, tuple) and l[1] in CONV:
                    return (U() / lu) / ru if div and False else (ru / lu if not div else (U() / lu) / ru)
                return lu / ru if div else lu * ru
            if isinstance(n.op, (ast.Add, ast.Sub)):
                return self.same_all([n.left, n.right], n, "add/sub operands differ")
            return None
        if isinstance(n, ast.Call):
            fn = self.dotted(n.func) or ""
            last = fn.split(".")[-1]
            if last in ("min", "max", "minimum", "maximum", "clip"):
                args = n.args
                if len(args) == 1 and isinstance(args[0], (ast.List, ast.Tuple)):
                    args = args[0].elts
                return self.same_all(args, n, f"{last}() operands differ")
            if last in ("abs", "float", "int", "sum", "ceil", "array", "mean"):
                return self.u(n.args[0]) if n.args else None
            if last == "exp":
                a = self.u(n.args[0])
                if isinstance(a, U) and not a.same(ONE):
                    self.issue(n, f"exp() of dimensioned value {a}")
                return ONE
            if last in self.calls:
                for a in n.args: self.u(a)
                return self.calls[last]
            for a in n.args: self.u(a)
            return None
        if isinstance(n, ast.IfExp):
            return self.same_all([n.body, n.orelse], n, "ifexp arms differ")
        if isinstance(n, ast.Compare):
            self.same_all([n.left] + n.comparators, n, "compared values differ")
            return None
        return None

    def _litlit(self, l, r, div):
        # 60 / 1000 style: treat as pure
        return ("lit", l[1] / r[1] if div else l[1] * r[1])

    def same_all(self, exprs, node, msg):
        us = [self.u(e) for e in exprs]
        known = [(e, x) for e, x in zip(exprs, us) if isinstance(x, U)]
        lits = [x for x in us if isinstance(x, tuple)]
        if not known:
            return lits[0] if lits and len(lits) == len(us) else None
        self.ops += 1
        ref = known[0][1]
        for e, x in known[1:]:
            if not ref.same(x):
                self.issue(node, f"{msg}: {ref} vs {x}")
                return None
        for x in lits:
            if x[1] != 0 and not ref.same(ONE):
                # nonzero literal against dimensioned value: tolerate small thresholds? flag
                pass
        return ref

    # statements
    def visit_Assign(self, n):
        u = self.u(n.value)
        for t in n.targets:
            self.bind(t, u, n)

    def visit_AugAssign(self, n):
        cur = self.u(n.target)
        v = self.u(n.value)
        if isinstance(n.op, (ast.Add, ast.Sub)) and isinstance(cur, U) and isinstance(v, U):
            self.ops += 1
            if not cur.same(v):
                self.issue(n, f"augmented add: target {cur} vs value {v}")

    def bind(self, t, u, n):
        if isinstance(t, ast.Name):
            if isinstance(u, U):
                self.env[t.id] = u
            elif t.id in self.env and not isinstance(u, U):
                pass
        elif isinstance(t, (ast.Attribute, ast.Subscript)):
            decl = self.u(t)
            if isinstance(decl, U) and isinstance(u, U):
                self.ops += 1
                if not decl.same(u):
                    self.issue(n, f"store to {self.dotted(t)} declared {decl} gets {u}")
        elif isinstance(t, ast.Tuple):
            pass

    def visit_Return(self, n):
        if n.value is not None:
            self.ret.append((n, self.u(n.value)))

    def visit_Expr(self, n):
        self.u(n.value)

    def visit_If(self, n):
        self.u(n.test)
        for s in n.body + n.orelse:
            self.visit(s)

    def visit_FunctionDef(self, n):
        pass  # nested handled separately


def run(path, qual, env, attr, calls, ret=None):
    tree = ast.parse(pathlib.Path(path).read_text())
    parts = qual.split(".")
    node = tree
    for p in parts:
        node = next(c for c in ast.walk(node) if isinstance(c, (ast.FunctionDef, ast.ClassDef)) and c.name == p)
    c = Checker({k: NAMED[v] for k, v in env.items()}, {k: NAMED[v] for k, v in attr.items()},
                {k: NAMED[v] for k, v in calls.items()}, f"{path}:{qual}")
    for s in node.body:
        c.visit(s)
    if ret:
        for rn, ru in c.ret:
            if isinstance(ru, U):
                c.ops += 1
                if not ru.same(NAMED[ret]):
                    c.issue(rn, f"return declared {NAMED[ret]} gets {ru}")
    return c


if __name__ == "__main__":
    R = "/repo/acnportal/"
    batt_attr = {"self._capacity": "kWh", "self._current_charge": "kWh", "self._init_charge": "kWh",
                 "self._max_power": "kW", "self._current_charging_power": "kW", "self._soc": "1",
                 "self._transition_soc": "1", "self._noise_level": "kW"}
    pv = {"pilot": "A", "voltage": "V", "period": "min"}
    jobs = [
        (R + "acnsim/models/battery.py", "Battery.charge", pv, batt_attr, {}, "A"),
        (R + "acnsim/models/battery.py", "Linear2StageBattery._charge", pv, batt_attr, {"normal": "kW"}, "A"),
        (R + "acnsim/models/battery.py", "Linear2StageBattery._charge_stepwise", pv, batt_attr, {"normal": "kW"}, "A"),
        (R + "acnsim/models/ev.py", "EV.charge", pv, {"self._energy_delivered": "kWh", "self._current_charging_rate": "A"}, {"charge": "A"}, "A"),
        (R + "acnsim/models/battery.py", "batt_cap_fn._get_init_cap", {"requested_energy": "kWh", "battery_cap": "kWh", "max_rate": "A", "transition_soc": "1", "voltage": "V", "period": "min", "stay_dur": "1"}, {}, {"binsearch": "1"}, "kWh"),
        (R + "acnsim/interface.py", "Interface._convert_to_amp_periods", {"kwh": "kWh"}, {"self.period": "min"}, {"evse_voltage": "V"}, "A"),
        (R + "algorithms/utils.py", "remaining_amp_periods", {"period": "min"}, {"session.remaining_demand": "kWh", "infrastructure.voltages": "V"}, {}, "A"),
        (R + "algorithms/preprocessing.py", "remove_finished_sessions", {"period": "min"}, {"infrastructure.min_pilot": "A", "infrastructure.voltages": "V", "s.remaining_demand": "kWh"}, {}, None),
        (R + "acnsim/events/acndata_events.py", "_convert_to_ev", {"period": "min", "voltage": "V", "max_battery_power": "kW", "offset": "1", "max_len": "1"}, {"d": "kWh"}, {"_datetime_to_timestamp": "1"}, None),
        (R + "acnsim/events/stochastic_events.py", "StochasticEvents._convert_ev_matrix", {"period": "min", "voltage": "V", "max_battery_power": "kW", "max_len": "h", "arrival": "h", "duration": "h", "energy_delivered": "kWh"}, {}, {}, None),
        (R + "acnsim/analysis/__init__.py", "aggregate_power", {}, {"sim.network._voltages.T": "V", "sim.network._voltages": "V", "sim.charging_rates": "A"}, {}, "kW"),
        (R + "acnsim/analysis/__init__.py", "energy_cost", {"agg": "kW", "energy_costs": "$/kWh"}, {"sim.period": "min"}, {"aggregate_power": "kW", "get_tariffs": "$/kWh"}, None),
    ]
    for j in jobs:
        c = run(*j)
        print(f"{j[1]:45s} ops={c.ops:3d} issues={len(c.issues)}  returns={[str(u) for _, u in c.ret]}")
        for i in c.issues:
            print("    ", i)

import ast, pathlib, collections
root = pathlib.Path('/repo/acnportal')
WATCH = {'_energy_delivered','_current_charge','_current_charging_power','_current_charging_rate','_ev','_current_pilot','_queue',
 'pilot_signals','charging_rates','peak','_iteration','_resolve','_last_schedule_update','constraint_matrix','magnitudes','constraint_index',
 '_EVSEs','_voltages','_phase_angles','waiting_queue','upper_bounds','event_history','ev_history','_station_id'}
MUT = {'append','extend','pop','popitem','remove','clear','update','sort','move_to_end','insert'}
out = collections.defaultdict(set)
for p in sorted(root.rglob('*.py')):
    if '/tests/' in str(p): continue
    t = ast.parse(p.read_text())
    def visit(node, ctx):
        for ch in ast.iter_child_nodes(node):
            c2 = ctx
            if isinstance(ch,(ast.FunctionDef,ast.ClassDef)): c2 = ctx+[ch.name]
            if isinstance(ch,(ast.Assign,ast.AugAssign,ast.AnnAssign,ast.Delete)):
                tg = ch.targets if isinstance(ch,(ast.Assign,ast.Delete)) else [ch.target]
                for tt in tg:
                    for e in ast.walk(tt):
                        if isinstance(e, ast.Attribute) and e.attr in WATCH and isinstance(e.ctx,(ast.Store,ast.Del)):
                            out[e.attr].add(f"{p.name}::{'.'.join(c2)} (store)")
                        if isinstance(e, ast.Subscript) and isinstance(e.value, ast.Attribute) and e.value.attr in WATCH and isinstance(e.ctx,(ast.Store,ast.Del)):
                            out[e.value.attr].add(f"{p.name}::{'.'.join(c2)} (item-store)")
            if isinstance(ch, ast.Call) and isinstance(ch.func, ast.Attribute):
                if ch.func.attr in MUT and isinstance(ch.func.value, ast.Attribute) and ch.func.value.attr in WATCH:
                    out[ch.func.value.attr].add(f"{p.name}::{'.'.join(c2)} (.{ch.func.attr})")
                if ch.func.attr in ('heappush','heappop') and ch.args and isinstance(ch.args[0], ast.Attribute) and ch.args[0].attr in WATCH:
                    out[ch.args[0].attr].add(f"{p.name}::{'.'.join(c2)} ({ch.func.attr})")
            visit(ch, c2)
    visit(t, [])
for k in sorted(out): print(f"{k:26s}", sorted(out[k]))

"""Throwaway prototype: alias/escape classification of Interface's public API."""
import ast, pathlib
src = pathlib.Path('/repo/acnportal/acnsim/interface.py').read_text()
tree = ast.parse(src)
cls = next(n for n in tree.body if isinstance(n, ast.ClassDef) and n.name == 'Interface')
methods = {f.name: f for f in cls.body if isinstance(f, ast.FunctionDef)}
SCALAR_ATTRS = {'iteration','_iteration','period','peak','max_recompute','start','violation_tolerance','relative_tolerance'}
FRESH_CALLS = {'deepcopy','array','tolist','timedelta','dict','list','tuple','float','int','SessionInfo','get_tariffs','get_demand_charge','is_feasible','index_of_evse','get_station_index','get_active_evs'}
memo = {}
def classify_fn(name, depth=0):
    if name in memo: return memo[name]
    memo[name] = 'SCALAR'  # recursion guard
    f = methods[name]
    env = {}
    kinds = []
    def cl(e):
        if isinstance(e, ast.Constant): return 'SCALAR'
        if isinstance(e, (ast.BinOp, ast.Compare, ast.BoolOp, ast.UnaryOp)): return 'SCALAR'
        if isinstance(e, (ast.DictComp, ast.ListComp)):
            inner = cl(e.value if isinstance(e, ast.DictComp) else e.elt)
            return 'FRESH' if inner in ('SCALAR','FRESH') else 'HOLDER'
        if isinstance(e, ast.Dict): return 'FRESH' if all(cl(v) in ('SCALAR','FRESH') for v in e.values) else 'HOLDER'
        if isinstance(e, ast.Tuple):
            ks = [cl(x) for x in e.elts]; return 'FRESH' if all(k in ('SCALAR','FRESH') for k in ks) else 'HOLDER'
        if isinstance(e, ast.Name):
            return env.get(e.id, 'SCALAR' if e.id in ('continuity',) else 'UNKNOWN')
        if isinstance(e, ast.Subscript):
            b = cl(e.value)
            if b in ('ALIAS','HOLDER'):
                # scalar element of an array by scalar index is a scalar; element of list-of-arrays is alias
                return 'ELEM(' + b + ')'
            return b
        if isinstance(e, ast.Attribute):
            # self.<property> of this class
            if isinstance(e.value, ast.Name) and e.value.id == 'self' and e.attr in methods:
                return classify_fn(e.attr, depth+1)
            chain = ast.unparse(e)
            if chain.startswith('self._simulator'):
                return 'SCALAR' if e.attr in SCALAR_ATTRS else 'ALIAS'
            b = cl(e.value)
            if b in ('HOLDER','ALIAS'): return 'ALIAS'
            if b == 'FRESH': return 'FRESH'
            return 'SCALAR' if e.attr in SCALAR_ATTRS or e.attr in ('session_id','station_id','current_charging_rate','arrival') else b
        if isinstance(e, ast.Call):
            fn = e.func
            name = fn.attr if isinstance(fn, ast.Attribute) else (fn.id if isinstance(fn, ast.Name) else '')
            if isinstance(fn, ast.Attribute) and isinstance(fn.value, ast.Name) and fn.value.id == 'self' and name in methods:
                return classify_fn(name, depth+1)
            if name == 'Constraint' or name == 'InfrastructureInfo':
                ks = [cl(a) for a in e.args]
                return 'FRESH' if all(k in ('SCALAR','FRESH') for k in ks) else 'HOLDER'
            if name == 'tolist': return 'FRESH'
            if name in FRESH_CALLS: return 'FRESH'
            return 'UNKNOWN'
        if isinstance(e, ast.IfExp): return cl(e.body)
        return 'UNKNOWN'
    for n in ast.walk(f):
        if isinstance(n, ast.Assign) and isinstance(n.targets[0], ast.Name): env[n.targets[0].id] = cl(n.value)
        if isinstance(n, ast.AnnAssign) and isinstance(n.target, ast.Name) and n.value is not None: env[n.target.id] = cl(n.value)
    for n in ast.walk(f):
        if isinstance(n, ast.Return) and n.value is not None: kinds.append(cl(n.value))
    order = ['ALIAS','HOLDER','ELEM(ALIAS)','ELEM(HOLDER)','UNKNOWN','FRESH','SCALAR']
    k = sorted(kinds, key=order.index)[0] if kinds else 'SCALAR'
    memo[name] = k
    return k
for name in methods:
    if name.startswith('_'): continue
    print(f"{name:30s} {classify_fn(name)}")
print('--- helpers'); 
for name in ('_infrastructure_info','_active_sessions','_active_evs'): print(f"{name:30s} {classify_fn(name)}")

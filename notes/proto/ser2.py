import ast, pathlib
exec(open('ser.py').read().split("for c in sorted(classes):")[0])
def from_dict_keys(cls):
    keys=set(); seen=set()
    def scan(fn):
        lists={}
        for n in ast.walk(fn):
            if isinstance(n, ast.Assign) and isinstance(n.value,(ast.List,ast.Tuple)) and n.value.elts and all(isinstance(e, ast.Constant) for e in n.value.elts) and isinstance(n.targets[0], ast.Name):
                lists[n.targets[0].id]=[e.value for e in n.value.elts]
        for n in ast.walk(fn):
            if isinstance(n, ast.Subscript) and isinstance(n.value, ast.Name) and n.value.id=='attribute_dict':
                if isinstance(n.slice, ast.Constant): keys.add(n.slice.value)
                elif isinstance(n.slice, ast.Name):
                    for l in lists.values(): keys.update(l)
            if isinstance(n, ast.Compare) and isinstance(n.left, ast.Constant) and any(isinstance(c, ast.Name) and c.id=='attribute_dict' for c in n.comparators):
                keys.add(n.left.value)
            if isinstance(n, ast.Call) and isinstance(n.func, ast.Attribute) and n.func.attr in ('_from_dict_helper','_from_dict') and isinstance(n.func.value,(ast.Name,ast.Call)):
                pass
    for c in mro(cls):
        for f in classes[c][1].body:
            if isinstance(f, ast.FunctionDef) and f.name in ('_from_dict','_from_dict_helper'):
                if (f.name) in seen and f.name=='_from_dict': continue
                seen.add(f.name) if f.name=='_from_dict' else None
                scan(f)
    return keys
for c in sorted(classes):
    if 'BaseSimObj' in mro(c) and c not in ('BaseSimObj','StochasticNetwork'):
        k,_=to_dict_keys(c); r=from_dict_keys(c)
        print(f"{c:22s} dumped-not-read={sorted(k-r)}  read-not-dumped={sorted(r-k)}")

import json, tempfile, os, sys, io, contextlib
sys.argv=['x']
with contextlib.redirect_stdout(io.StringIO()):
    import units2
from units2 import run, JOBS, R
res = json.load(open('mutant_results.json'))
want = ['m15','m26','m68','m130','m134','m135','m153','m156','m160']
for mid in want:
    mu = res[mid]
    src = open('/repo/'+mu['file']).read()
    assert mu['old'] in src
    new = src.replace(mu['old'], mu['new'], 1)
    tmpd = tempfile.mkdtemp(); p = os.path.join(tmpd, 'acnportal', mu['file'].split('acnportal/',1)[1]); os.makedirs(os.path.dirname(p))
    open(p,'w').write(new)
    hits=[]
    for path, qual, env, attr, calls, sigs, ret in JOBS:
        if ('acnportal/'+path) != mu['file']: continue
        sigs = {k:v for k,v in sigs.items() if k!='__capfn__'}
        c = run(tmpd + '/acnportal/' + path, qual, env, attr, calls, sigs, ret)
        hits += [i.split(': ',1)[1][:110] for i in c.issues if 'init_soc`' not in i and 'cap_fn()' not in i]
    print(mid, mu['status'], 'DETECTED' if hits else 'missed', hits[:1])

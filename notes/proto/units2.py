"""Throwaway prototype v2: dimension+scale inference with call-argument checking (feasibility probe)."""
import ast, pathlib, math

BASE = ("A", "V", "T", "USD", "DEG")


class U:
    __slots__ = ("d", "k")

    def __init__(self, d=None, k=1.0):
        self.d = tuple(d) if d else (0,) * len(BASE); self.k = float(k)

    def __mul__(s, o): return U([a + b for a, b in zip(s.d, o.d)], s.k * o.k)
    def __truediv__(s, o): return U([a - b for a, b in zip(s.d, o.d)], s.k / o.k)
    def same(s, o): return s.d == o.d and abs(math.log(s.k / o.k)) < 1e-9
    def __repr__(s):
        for n, u in NAMED.items():
            if u.same(s): return n
        n = "*".join(f"{b}^{e}" if e != 1 else b for b, e in zip(BASE, s.d) if e) or "1"
        return f"<{n} x{s.k:g}>"


def base(n):
    d = [0] * len(BASE); d[BASE.index(n)] = 1; return U(d)


NAMED = {}
ONE = U(); A_, V_, S_, USD, DEG = map(base, BASE)
MIN = U(S_.d, 60); H = U(S_.d, 3600); W = A_ * V_; KW = U(W.d, 1000); KWH = KW * H
NAMED.update({"1": ONE, "A": A_, "V": V_, "s": S_, "min": MIN, "h": H, "kW": KW, "kWh": KWH, "deg": DEG, "$": USD,
              "$/kWh": USD / KWH, "$/kW": USD / KW, "1/h": ONE / H})
CONV = {1000: U(k=1 / 1000), 60: U(k=1 / 60), 3600: U(k=1 / 3600)}
LIT = "LIT"  # polymorphic pure literal


class Checker:
    def __init__(self, env, attr, calls, sigs, where):
        self.env = {k: NAMED[v] for k, v in env.items()}
        self.attr = {k: NAMED[v] for k, v in attr.items()}
        self.calls = {k: (NAMED[v] if v else None) for k, v in calls.items()}
        self.sigs = {k: [NAMED[x] if x else None for x in v] for k, v in sigs.items()}
        self.where = where; self.issues = []; self.ops = 0; self.rets = []

    def issue(self, node, msg):
        self.issues.append(f"{self.where}:{node.lineno}: {msg}: `{ast.unparse(node)[:100]}`")

    def dotted(self, n):
        if isinstance(n, ast.Name): return n.id
        if isinstance(n, ast.Attribute):
            b = self.dotted(n.value); return f"{b}.{n.attr}" if b else None
        if isinstance(n, ast.Subscript):
            b = self.dotted(n.value)
            if b and isinstance(n.slice, ast.Constant) and isinstance(n.slice.value, str): return f'{b}["{n.slice.value}"]'
            return b
        if isinstance(n, ast.Call): return None
        return None

    def u(self, n):
        if isinstance(n, ast.Constant):
            if isinstance(n.value, bool) or not isinstance(n.value, (int, float)): return None
            return CONV.get(n.value, LIT) if n.value in CONV else LIT
        if isinstance(n, (ast.Name, ast.Attribute, ast.Subscript)):
            d = self.dotted(n)
            if isinstance(n, ast.Name) and n.id in self.env: return self.env[n.id]
            if d in self.attr: return self.attr[d]
            if isinstance(n, ast.Attribute):
                if n.attr == "T": return self.u(n.value)
                if ("*." + n.attr) in self.attr: return self.attr["*." + n.attr]
            if isinstance(n, ast.Subscript):
                if d in self.attr: return self.attr[d]
                return self.u(n.value)
            return None
        if isinstance(n, ast.UnaryOp): return self.u(n.operand)
        if isinstance(n, ast.BinOp):
            l, r = self.u(n.left), self.u(n.right)
            if isinstance(n.op, (ast.Mult, ast.Div, ast.MatMult)):
                if l is None or r is None: return None
                if l == LIT and r == LIT: return LIT
                lu = ONE if l == LIT else l; ru = ONE if r == LIT else r
                self.ops += 1
                return lu / ru if isinstance(n.op, ast.Div) else lu * ru
            if isinstance(n.op, (ast.Add, ast.Sub)):
                return self.same_all([n.left, n.right], n, "add/sub operands differ")
            if isinstance(n.op, ast.Pow): return None
            return None
        if isinstance(n, ast.Call):
            fn = self.dotted(n.func) or (n.func.attr if isinstance(n.func, ast.Attribute) else "")
            last = fn.split(".")[-1]
            if last in ("min", "max", "minimum", "maximum", "clip"):
                args = list(n.args) + [k.value for k in n.keywords if k.arg in ("a_min", "a_max")]
                if len(args) == 1 and isinstance(args[0], (ast.List, ast.Tuple)): args = args[0].elts
                return self.same_all(args, n, f"{last}() operands differ")
            if last in ("abs", "float", "int", "sum", "ceil", "array", "mean", "Decimal", "copy", "full"):
                return self.u(n.args[-1] if last == "full" else n.args[0]) if n.args else None
            if last == "dot" and isinstance(n.func, ast.Attribute):
                a, b = self.u(n.func.value), self.u(n.args[0])
                if isinstance(a, U) and isinstance(b, U): self.ops += 1; return a * b
                return None
            if last == "exp":
                a = self.u(n.args[0])
                if isinstance(a, U):
                    self.ops += 1
                    if not a.same(ONE): self.issue(n, f"exp() of dimensioned value {a}")
                return ONE
            if last == "timedelta":
                for k in n.keywords:
                    want = {"minutes": MIN, "hours": H, "seconds": S_}.get(k.arg)
                    got = self.u(k.value)
                    if want is not None and isinstance(got, U):
                        self.ops += 1
                        if not got.same(want): self.issue(n, f"timedelta({k.arg}=) given {got}")
                return S_  # a duration (scale irrelevant once inside timedelta)
            if last == "timestamp": return S_
            if last == "total_seconds": return S_
            if last == "normal" and len(n.args) >= 2: return self.u(n.args[1])
            if last in self.sigs:
                for a, want in zip(n.args, self.sigs[last]):
                    got = self.u(a)
                    if want is not None and isinstance(got, U):
                        self.ops += 1
                        if not got.same(want): self.issue(n, f"argument `{ast.unparse(a)}` of {last}() is {got}, parameter expects {want}")
            else:
                for a in n.args: self.u(a)
            if last in self.calls: return self.calls[last]
            return None
        if isinstance(n, ast.IfExp): return self.same_all([n.body, n.orelse], n, "ifexp arms differ")
        if isinstance(n, ast.Compare):
            self.same_all([n.left] + n.comparators, n, "compared values differ"); return None
        if isinstance(n, ast.BoolOp):
            for v in n.values: self.u(v)
            return None
        return None

    def same_all(self, exprs, node, msg):
        us = [self.u(e) for e in exprs]
        known = [x for x in us if isinstance(x, U)]
        if not known: return LIT if us and all(x == LIT for x in us) else None
        self.ops += 1
        ref = known[0]
        for x in known[1:]:
            if not ref.same(x):
                self.issue(node, f"{msg}: {ref} vs {x}"); return None
        return ref

    def run(self, stmts):
        for s in stmts: self.st(s)

    def st(self, s):
        if isinstance(s, ast.Assign):
            u = self.u(s.value)
            for t in s.targets: self.bind(t, u, s)
        elif isinstance(s, ast.AnnAssign) and s.value is not None:
            self.bind(s.target, self.u(s.value), s)
        elif isinstance(s, ast.AugAssign):
            cur, v = self.u(s.target), self.u(s.value)
            if isinstance(s.op, (ast.Add, ast.Sub)) and isinstance(cur, U) and isinstance(v, U):
                self.ops += 1
                if not cur.same(v): self.issue(s, f"augmented add: target {cur} vs value {v}")
        elif isinstance(s, ast.Return):
            if s.value is not None: self.rets.append((s, self.u(s.value)))
        elif isinstance(s, ast.Expr): self.u(s.value)
        elif isinstance(s, ast.If):
            self.u(s.test); self.run(s.body); self.run(s.orelse)
        elif isinstance(s, (ast.For, ast.While)):
            if isinstance(s, ast.While): self.u(s.test)
            self.run(s.body); self.run(s.orelse)
        elif isinstance(s, ast.With): self.run(s.body)
        elif isinstance(s, ast.Try):
            self.run(s.body)
            for h in s.handlers: self.run(h.body)
            self.run(s.orelse); self.run(s.finalbody)

    def bind(self, t, u, s):
        if isinstance(t, ast.Name):
            if isinstance(u, U): self.env[t.id] = u
            elif u is None and t.id in self.env and not t.id.startswith("__keep"):
                pass
        elif isinstance(t, (ast.Attribute, ast.Subscript)):
            decl = self.u(t)
            if isinstance(decl, U) and isinstance(u, U):
                self.ops += 1
                if not decl.same(u): self.issue(s, f"store to {self.dotted(t)} declared {decl} gets {u}")


def find(tree, qual):
    node = tree
    for p in qual.split("."):
        node = next(c for c in ast.walk(node) if isinstance(c, (ast.FunctionDef, ast.ClassDef)) and c.name == p)
    return node


def run(path, qual, env=None, attr=None, calls=None, sigs=None, ret=None):
    tree = ast.parse(pathlib.Path(path).read_text()); fn = find(tree, qual)
    c = Checker(env or {}, attr or {}, calls or {}, sigs or {}, f"{path.split('acnportal/')[-1]}::{qual}")
    c.run([s for s in fn.body if not isinstance(s, (ast.FunctionDef,))])
    known = [(n, u) for n, u in c.rets if isinstance(u, U)]
    if ret:
        for n, u in known:
            c.ops += 1
            if not u.same(NAMED[ret]): c.issue(n, f"return declared {ret} gets {u}")
    elif len(known) > 1:
        for n, u in known[1:]:
            c.ops += 1
            if not u.same(known[0][1]): c.issue(n, f"returns disagree: {known[0][1]} vs {u}")
    return c


R = "/repo/acnportal/"
BATT = {"self._capacity": "kWh", "self._current_charge": "kWh", "self._init_charge": "kWh", "self._max_power": "kW",
        "self._current_charging_power": "kW", "self._soc": "1", "self._transition_soc": "1", "self._noise_level": "kW"}
PV = {"pilot": "A", "voltage": "V", "period": "min"}
CAPFN = ["kWh", "1", "V", "min"]
JOBS = [
    ("acnsim/models/battery.py", "Battery.charge", PV, BATT, {}, {}, "A"),
    ("acnsim/models/battery.py", "Battery.reset", {"init_charge": "kWh"}, BATT, {}, {}, None),
    ("acnsim/models/battery.py", "Linear2StageBattery._charge", PV, BATT, {}, {}, "A"),
    ("acnsim/models/battery.py", "Linear2StageBattery._charge_stepwise", PV, BATT, {}, {}, "A"),
    ("acnsim/models/battery.py", "batt_cap_fn._get_init_cap", {"requested_energy": "kWh", "battery_cap": "kWh", "max_rate": "A", "transition_soc": "1", "voltage": "V", "period": "min", "stay_dur": "1"}, {}, {"binsearch": "1", "delta_soc_from_init_soc": "1"}, {}, "kWh"),
    ("acnsim/models/battery.py", "batt_cap_fn._get_init_cap.delta_soc_from_init_soc", {"init_soc_guess": "1", "transition_soc": "1", "max_dsoc": "1", "stay_dur": "1"}, {}, {}, {}, "1"),
    ("acnsim/models/ev.py", "EV.charge", PV, {"self._energy_delivered": "kWh", "self._current_charging_rate": "A"}, {"charge": "A"}, {"charge": ["A", "V", "min"]}, "A"),
    ("acnsim/models/evse.py", "BaseEVSE.set_pilot", PV, {"self._current_pilot": "A"}, {}, {"charge": ["A", "V", "min"]}, None),
    ("acnsim/network/charging_network.py", "ChargingNetwork.update_pilots", {"period": "min"}, {"pilots": "A", "self._voltages": "V"}, {}, {"set_pilot": ["A", "V", "min"]}, None),
    ("acnsim/interface.py", "Interface._convert_to_amp_periods", {"kwh": "kWh"}, {"self.period": "min"}, {"evse_voltage": "V"}, {}, "A"),
    ("acnsim/interface.py", "Interface.current_datetime", {}, {"self.period": "min", "self.current_time": "1"}, {}, {}, None),
    ("acnsim/interface.py", "Interface.get_prices", {"length": "1", "start": "1"}, {"self.period": "min", "self.current_time": "1"}, {}, {"get_tariffs": [None, "1", "min"]}, None),
    ("algorithms/utils.py", "remaining_amp_periods", {"period": "min"}, {"session.remaining_demand": "kWh", "infrastructure.voltages": "V"}, {}, {}, "A"),
    ("algorithms/preprocessing.py", "remove_finished_sessions", {"period": "min"}, {"infrastructure.min_pilot": "A", "infrastructure.voltages": "V", "s.remaining_demand": "kWh"}, {}, {}, None),
    ("algorithms/preprocessing.py", "apply_minimum_charging_rate", {"period": "min", "override": "A"}, {"infrastructure.min_pilot": "A", "rates": "A", "session.min_rates": "A", "session.max_rates": "A"}, {"remaining_amp_periods": "A"}, {"remaining_amp_periods": [None, None, "min"]}, None),
    ("algorithms/sorted_algorithms.py", "SortedSchedulingAlgo.sorting_algorithm", {}, {"session.min_rates": "A", "session.max_rates": "A", "schedule": "A"}, {"remaining_amp_periods": "A", "max_feasible_rate": "A", "discrete_max_feasible_rate": "A"}, {}, None),
    ("algorithms/sorted_algorithms.py", "least_laxity_first.laxity", {}, {"ev.estimated_departure": "1", "iface.current_time": "1"}, {"remaining_amp_periods": "A", "max_pilot_signal": "A"}, {}, "1"),
    ("algorithms/sorted_algorithms.py", "largest_remaining_processing_time.remaining_processing_time", {}, {}, {"remaining_amp_periods": "A", "max_pilot_signal": "A"}, {}, "1"),
    ("algorithms/upper_bound_estimator.py", "SimpleRampdown.get_maximum_rates", {}, {"self.down_threshold": "A", "self.up_threshold": "A", "self.up_increment": "A", "prev_pilot": "A", "prev_rate": "A", "self.upper_bounds": "A"}, {"max_pilot_signal": "A"}, {}, None),
    ("acnsim/events/acndata_events.py", "_convert_to_ev", {"period": "min", "voltage": "V", "max_battery_power": "kW", "offset": "1", "max_len": "1"}, {'d["kWhDelivered"]': "kWh"}, {"_datetime_to_timestamp": "1"}, {"_datetime_to_timestamp": [None, "min"], '__capfn__': CAPFN}, None),
    ("acnsim/events/acndata_events.py", "_datetime_to_timestamp", {"period": "min"}, {}, {}, {}, "1"),
    ("acnsim/events/stochastic_events.py", "StochasticEvents._convert_ev_matrix", {"period": "min", "voltage": "V", "max_battery_power": "kW", "max_len": "h", "arrival": "h", "duration": "h", "energy_delivered": "kWh"}, {}, {}, {"cap_fn": CAPFN}, None),
    ("acnsim/events/stochastic_events.py", "StochasticEvents.extract_training_data", {}, {"v.hour": "h", "v.minute": "min"}, {}, {}, None),
    ("acnsim/analysis/__init__.py", "aggregate_power", {}, {"sim.network._voltages": "V", "sim.charging_rates": "A"}, {}, {}, "kW"),
    ("acnsim/analysis/__init__.py", "energy_cost", {}, {"sim.period": "min"}, {"aggregate_power": "kW", "get_tariffs": "$/kWh"}, {"get_tariffs": [None, "1", "min"]}, "$"),
    ("acnsim/analysis/__init__.py", "demand_charge", {}, {}, {"aggregate_power": "kW", "get_demand_charge": "$/kW"}, {}, "$"),
    ("acnsim/analysis/__init__.py", "datetimes_array", {"i": "1"}, {"sim.period": "min"}, {}, {}, None),
    ("signals/tariffs/tou_tariff.py", "TimeOfUseTariff.get_tariff", {}, {"date_time.hour": "h", "date_time.minute": "min", "date_time.second": "s", "r": "h"}, {}, {}, None),
    ("signals/tariffs/tou_tariff.py", "TimeOfUseTariff.get_tariffs", {"period": "min", "length": "1", "t": "1"}, {}, {}, {}, None),
    ("acnsim/network/sites/auto_acn.py", "simple_acn", {"voltage": "V", "aggregate_cap": "kW"}, {}, {}, {}, None),
]
# the ACN-Data converter calls battery_params["capacity_fn"](...) -> treat Subscript call as protocol
tot_ops = tot_issues = 0
for path, qual, env, attr, calls, sigs, ret in JOBS:
    if "__capfn__" in sigs:
        sigs = dict(sigs); sigs.pop("__capfn__")
    c = run(R + path, qual, env, attr, calls, sigs, ret)
    tot_ops += c.ops; tot_issues += len(c.issues)
    print(f"{qual:62s} ops={c.ops:3d} issues={len(c.issues)}")
    for i in c.issues: print("      ", i)
print("total ops", tot_ops, "issues", tot_issues)

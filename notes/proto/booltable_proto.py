"""Throwaway prototype: truth-table check of the recompute condition (C05-R1)."""
import ast, itertools, json, pathlib


def linear(e):
    """expr -> dict term->coef (only +,-, names/attrs); None if not linear"""
    if isinstance(e, ast.BinOp) and isinstance(e.op, (ast.Add, ast.Sub)):
        l, r = linear(e.left), linear(e.right)
        if l is None or r is None: return None
        out = dict(l)
        for k, v in r.items(): out[k] = out.get(k, 0) + (v if isinstance(e.op, ast.Add) else -v)
        return out
    if isinstance(e, (ast.Name, ast.Attribute)): return {ast.unparse(e): 1}
    if isinstance(e, ast.Constant) and isinstance(e.value, (int, float)): return {"1": e.value}
    return None


SPEC_G = {"self._iteration": 1, "self._last_schedule_update": -1, "self.max_recompute": -1}  # >= 0


def atom(e, env):
    """returns (name, polarity) or raises"""
    if isinstance(e, ast.Name) and e.id in env:
        return ("SUB", env[e.id])
    if isinstance(e, ast.Attribute) and ast.unparse(e) == "self._resolve": return ("R", True)
    if isinstance(e, ast.Compare) and len(e.ops) == 1:
        l, op, r = e.left, e.ops[0], e.comparators[0]
        if isinstance(r, ast.Constant) and r.value is None:
            who = ast.unparse(l)
            name = {"self.max_recompute": "N", "self._last_schedule_update": "L"}.get(who)
            if name is None: raise ValueError("unknown None-test " + who)
            is_none = isinstance(op, ast.Is)
            # N := max_recompute is not None ; L := last is None
            return (name, (not is_none) if name == "N" else is_none)
        ll, rr = linear(l), linear(r)
        if ll is not None and rr is not None:
            diff = dict(ll)
            for k, v in rr.items(): diff[k] = diff.get(k, 0) - v
            diff = {k: v for k, v in diff.items() if v}
            neg = {k: -v for k, v in diff.items()}
            # normal form: diff OP 0
            if isinstance(op, ast.GtE) and diff == SPEC_G: return ("G", True)
            if isinstance(op, ast.LtE) and neg == SPEC_G: return ("G", True)
            if isinstance(op, ast.Lt) and diff == SPEC_G: return ("G", False)
            if isinstance(op, ast.Gt) and neg == SPEC_G: return ("G", False)
            if diff == SPEC_G or neg == SPEC_G: return ("G_WRONG_STRICTNESS", True)
        raise ValueError("unknown atom " + ast.unparse(e))
    raise ValueError("unknown atom " + ast.unparse(e))


class Poison(Exception):
    pass


def ev(e, val, env):
    if isinstance(e, ast.BoolOp):
        if isinstance(e.op, ast.And):
            for v in e.values:
                if not ev(v, val, env): return False
            return True
        for v in e.values:
            if ev(v, val, env): return True
        return False
    if isinstance(e, ast.UnaryOp) and isinstance(e.op, ast.Not): return not ev(e.operand, val, env)
    a = atom(e, env)
    if a[0] == "SUB": return ev(a[1], val, env)
    if a[0] == "G_WRONG_STRICTNESS": raise ValueError("comparison has the spec's operands but the wrong strictness: " + ast.unparse(e))
    if a[0] == "G" and not (val["N"] and not val["L"]): raise Poison(ast.unparse(e))
    return val[a[0]] == a[1]


def check(src, label):
    tree = ast.parse(src)
    fn = next(n for n in ast.walk(tree) if isinstance(n, ast.FunctionDef) and n.name == "run")
    loop = next(n for n in fn.body if isinstance(n, ast.While))
    env = {}
    cond = None
    for s in loop.body:
        if isinstance(s, ast.Assign) and isinstance(s.targets[0], ast.Name): env[s.targets[0].id] = s.value
        if isinstance(s, ast.If) and any("scheduler.run()" in ast.unparse(x) for x in ast.walk(s)):
            cond = s.test; break
    bad = []
    try:
        for R, N, L, G in itertools.product([False, True], repeat=4):
            val = dict(R=R, N=N, L=L, G=G)
            spec = R or (N and (L or G))
            try:
                got = ev(cond, val, env)
            except Poison as p:
                bad.append(f"evaluates `{p}` when N={N} L={L} (None arithmetic)"); continue
            if got != spec: bad.append(f"R={R} N={N} L={L} G={G}: spec {spec} got {got}")
    except ValueError as e:
        bad.append(str(e))
    print(f"{label:28s}", "HOLDS" if not bad else "VIOLATION: " + bad[0] + (f" (+{len(bad)-1})" if len(bad) > 1 else ""))


src = pathlib.Path("/repo/acnportal/acnsim/simulator.py").read_text()
res = json.load(open("/verif/notes/mutant-calibration.json"))
ben = json.load(open("/verif/notes/benign-calibration.json"))
check(src, "original")
for k in ("m40", "m41"):
    check(src.replace(res[k]["old"], res[k]["new"], 1), k + " (breaking)")
check(src.replace(ben["b08"]["old"], ben["b08"]["new"], 1), "b08 (benign)")
check(src.replace("self._last_schedule_update is None\n                    or self._iteration", "self._iteration", 1), "drop `is None` guard")

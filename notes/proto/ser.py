import ast, sys, pathlib
root = pathlib.Path('/repo/acnportal')
mods = {}
for p in root.rglob('*.py'):
    if '/tests/' in str(p): continue
    mods[str(p.relative_to('/repo'))] = ast.parse(p.read_text())
classes = {}
for m, t in mods.items():
    for n in ast.walk(t):
        if isinstance(n, ast.ClassDef):
            classes[n.name] = (m, n)
def bases(c): return [b.id if isinstance(b, ast.Name) else ast.unparse(b) for b in classes[c][1].bases]
def mro(c):
    out=[c]
    for b in bases(c):
        if b in classes: out += mro(b)
    return out
def self_attrs(cls):
    s=set()
    for c in mro(cls):
        for f in classes[c][1].body:
            if isinstance(f, ast.FunctionDef) and f.name not in ('_from_dict','_from_dict_helper'):
                sn = f.args.args[0].arg if f.args.args else None
                for n in ast.walk(f):
                    tg=[]
                    if isinstance(n, ast.Assign): tg=n.targets
                    elif isinstance(n,(ast.AugAssign,ast.AnnAssign)): tg=[n.target]
                    for t in tg:
                        for e in ast.walk(t):
                            if isinstance(e, ast.Attribute) and isinstance(e.value, ast.Name) and e.value.id==sn and isinstance(e.ctx, ast.Store):
                                s.add(e.attr)
    return s
def to_dict_keys(cls):
    keys=set()
    for c in mro(cls):
        for f in classes[c][1].body:
            if isinstance(f, ast.FunctionDef) and f.name=='_to_dict':
                lists={}
                for n in ast.walk(f):
                    if isinstance(n, ast.Assign) and isinstance(n.value, ast.List) and all(isinstance(e, ast.Constant) for e in n.value.elts):
                        lists[n.targets[0].id]=[e.value for e in n.value.elts]
                for n in ast.walk(f):
                    if isinstance(n, ast.Assign):
                        for t in n.targets:
                            if isinstance(t, ast.Subscript) and isinstance(t.value, ast.Name) and t.value.id=='attribute_dict':
                                if isinstance(t.slice, ast.Constant): keys.add(t.slice.value)
                                elif isinstance(t.slice, ast.Name):
                                    # loop var over a list
                                    for l in lists.values(): keys.update(l)
                        if isinstance(n.value, ast.Dict) and isinstance(n.targets[0], ast.Name) and n.targets[0].id=='attribute_dict':
                            keys.update(k.value for k in n.value.keys)
                # does it call super()._to_dict?
                if not any(isinstance(n, ast.Call) and isinstance(n.func, ast.Attribute) and n.func.attr=='_to_dict' for n in ast.walk(f)):
                    return keys, c
                break
    return keys, None
for c in sorted(classes):
    if 'BaseSimObj' in mro(c) and c!='BaseSimObj':
        a=self_attrs(c); k,_=to_dict_keys(c)
        print(f"{c:22s} {classes[c][0]:55s} attrs-keys={sorted(a-k)} keys-attrs={sorted(k-a)}")

"""Throwaway prototype: statement CFG + dominators + a few path rules."""
import ast, pathlib, itertools, sys


class Node:
    _n = itertools.count()

    def __init__(self, kind, stmt=None, label=""):
        self.id = next(Node._n); self.kind = kind; self.stmt = stmt; self.label = label
        self.succ = []  # (node, edge_label)

    def __repr__(self):
        s = ast.unparse(self.stmt).split("\n")[0][:60] if self.stmt is not None else self.label
        return f"<{self.id}:{self.kind}:{s}>"


class CFG:
    def __init__(self, fn):
        self.fn = fn
        self.nodes = []
        self.entry = self.new("entry"); self.exit = self.new("exit"); self.raise_exit = self.new("raise_exit")
        self.loop_stack = []
        ends = self.block(fn.body, [(self.entry, None)])
        for n, l in ends: self.edge(n, self.exit, l)

    def new(self, kind, stmt=None, label=""):
        n = Node(kind, stmt, label); self.nodes.append(n); return n

    def edge(self, a, b, label=None):
        a.succ.append((b, label))

    def connect(self, preds, node):
        for p, l in preds: self.edge(p, node, l)

    def block(self, stmts, preds):
        for s in stmts:
            preds = self.stmt(s, preds)
        return preds

    def stmt(self, s, preds):
        if isinstance(s, ast.If):
            t = self.new("test", s.test); self.connect(preds, t)
            a = self.block(s.body, [(t, True)])
            b = self.block(s.orelse, [(t, False)]) if s.orelse else [(t, False)]
            return a + b
        if isinstance(s, (ast.While,)):
            t = self.new("test", s.test); self.connect(preds, t)
            brk = []
            self.loop_stack.append((t, brk))
            body_end = self.block(s.body, [(t, True)])
            self.loop_stack.pop()
            self.connect(body_end, t)
            out = [] if (isinstance(s.test, ast.Constant) and s.test.value is True) else [(t, False)]
            return out + brk
        if isinstance(s, ast.For):
            t = self.new("for", s); self.connect(preds, t)
            brk = []
            self.loop_stack.append((t, brk))
            body_end = self.block(s.body, [(t, True)])
            self.loop_stack.pop()
            self.connect(body_end, t)
            return [(t, False)] + brk
        if isinstance(s, ast.Return):
            n = self.new("return", s); self.connect(preds, n); self.edge(n, self.exit); return []
        if isinstance(s, ast.Raise):
            n = self.new("raise", s); self.connect(preds, n); self.edge(n, self.raise_exit); return []
        if isinstance(s, ast.Break):
            n = self.new("break", s); self.connect(preds, n); self.loop_stack[-1][1].append((n, None)); return []
        if isinstance(s, ast.Continue):
            n = self.new("continue", s); self.connect(preds, n); self.edge(n, self.loop_stack[-1][0]); return []
        if isinstance(s, ast.Try):
            body_start_preds = preds
            first = len(self.nodes)
            ends = self.block(s.body, preds)
            body_nodes = self.nodes[first:]
            outs = list(ends)
            if s.orelse: outs = self.block(s.orelse, outs)
            for h in s.handlers:
                hn = self.new("except", None, "except");
                for bn in body_nodes: self.edge(bn, hn, "exc")
                for p, l in body_start_preds: self.edge(p, hn, "exc")
                outs += self.block(h.body, [(hn, None)])
            if s.finalbody: outs = self.block(s.finalbody, outs)
            return outs
        if isinstance(s, ast.With):
            n = self.new("with", s); self.connect(preds, n)
            return self.block(s.body, [(n, None)])
        if isinstance(s, (ast.FunctionDef, ast.ClassDef)):
            n = self.new("def", None, f"def {s.name}"); self.connect(preds, n); return [(n, None)]
        n = self.new("stmt", s); self.connect(preds, n); return [(n, None)]

    # ---- analyses
    def reach(self, src, avoid=()):
        seen = set(); st = [src]
        while st:
            x = st.pop()
            if x in seen or x in avoid: continue
            seen.add(x)
            st.extend(y for y, _ in x.succ)
        return seen

    def dominators(self):
        preds = {n: [] for n in self.nodes}
        for n in self.nodes:
            for m, _ in n.succ: preds[m].append(n)
        reach = self.reach(self.entry)
        dom = {n: set(reach) for n in reach}
        dom[self.entry] = {self.entry}
        ch = True
        while ch:
            ch = False
            for n in reach:
                if n is self.entry: continue
                ps = [p for p in preds[n] if p in reach]
                new = set.intersection(*(dom[p] for p in ps)) | {n} if ps else {n}
                if new != dom[n]: dom[n] = new; ch = True
        return dom


def find_fn(path, qual):
    tree = ast.parse(pathlib.Path(path).read_text())
    node = tree
    for p in qual.split("."):
        node = next(c for c in ast.walk(node) if isinstance(c, (ast.FunctionDef, ast.ClassDef)) and c.name == p)
    return node


def is_self_store(n):
    """node stores to self.* (attribute or subscript of attribute) or mutates via method"""
    if n.stmt is None or n.kind not in ("stmt",): return False
    s = n.stmt
    tg = []
    if isinstance(s, ast.Assign): tg = s.targets
    elif isinstance(s, (ast.AugAssign, ast.AnnAssign)): tg = [s.target]
    for t in tg:
        for e in ast.walk(t):
            if isinstance(e, ast.Attribute) and isinstance(e.ctx, ast.Store) and isinstance(e.value, ast.Name) and e.value.id in ("self",):
                return True
            if isinstance(e, ast.Subscript) and isinstance(e.ctx, ast.Store):
                b = e.value
                if isinstance(b, ast.Attribute) and isinstance(b.value, ast.Name) and b.value.id == "self": return True
    return False


def validate_before_write(path, qual, extra_store=lambda n: False):
    fn = find_fn(path, qual); g = CFG(fn)
    stores = [n for n in g.nodes if is_self_store(n) or extra_store(n)]
    raises = [n for n in g.nodes if n.kind == "raise"]
    bad = []
    for s in stores:
        r = g.reach(s)
        for x in raises:
            if x in r and x is not s: bad.append((s, x))
    print(f"{qual:40s} nodes={len(g.nodes):3d} stores={len(stores)} raises={len(raises)} bad={bad}")
    return g



"""Throwaway prototype: index-domain typing (STATION_POS / STATION_ID / SESSION_ID / LEVEL / TIME)."""
import ast, pathlib

ROOT = pathlib.Path('/repo/acnportal')
POS_CALLS = {'get_station_index', 'index_of_evse'}
# container name -> expected domain of the (station-axis) index; scoped overrides by function
CONTAINERS = {
    '_voltages': 'STATION_POS', '_phase_angles': 'STATION_POS', 'max_pilot_signals': 'STATION_POS',
    'min_pilot_signals': 'STATION_POS', 'allowable_rates': 'STATION_POS', 'is_continuous': 'STATION_POS',
    'voltages': 'STATION_POS', 'phases': 'STATION_POS', 'max_pilot': 'STATION_POS', 'min_pilot': 'STATION_POS',
    'allowable_pilots': 'STATION_POS', 'rate_idx': 'STATION_POS', 'rates': 'STATION_POS',
    'pilot_signals': 'STATION_POS', 'charging_rates': 'STATION_POS', 'array_schedule': 'STATION_POS',
    '_new_schedule': 'STATION_POS',
    '_EVSEs': 'STATION_ID', '_station_ids_dict': 'STATION_ID',
    'upper_bounds': 'SESSION_ID', 'prev_pilot': 'SESSION_ID', 'prev_rate': 'SESSION_ID', 'ev_history': 'SESSION_ID',
    'waiting_queue': 'SESSION_ID',
}
SCOPED = {  # (function, name) -> domain
    ('discrete_max_feasible_rate', 'allowable_pilots'): 'LEVEL',
    ('sorting_algorithm', 'schedule'): 'STATION_POS', ('round_robin', 'schedule'): 'STATION_POS',
    ('max_feasible_rate', 'new_schedule'): 'STATION_POS', ('discrete_max_feasible_rate', 'new_schedule'): 'STATION_POS',
    ('_update_schedules', 'new_schedule'): 'STATION_ID', ('is_feasible', 'load_currents'): 'STATION_ID',
    ('format_array_schedule', 'schedule'): 'STATION_ID', ('schedule', 'schedule'): 'STATION_ID',
}
PARAMS = {('max_feasible_rate', 'station_index'): 'STATION_POS', ('discrete_max_feasible_rate', 'station_index'): 'STATION_POS',
          ('bisection', '_index'): 'STATION_POS'}


def dotted_last(n):
    if isinstance(n, ast.Attribute): return n.attr
    if isinstance(n, ast.Name): return n.id
    return None


class Fn:
    def __init__(self, fn, path):
        self.fn, self.path = fn, path
        self.defs = {}  # name -> list of (kind, node)
        self.collect()

    def collect(self):
        for n in ast.walk(self.fn):
            if isinstance(n, ast.Assign) and len(n.targets) == 1 and isinstance(n.targets[0], ast.Name):
                self.defs.setdefault(n.targets[0].id, []).append(('assign', n.value))
            if isinstance(n, (ast.For, ast.comprehension)):
                self.bind_iter(n.target, n.iter)
        for a in self.fn.args.args:
            d = PARAMS.get((self.fn.name, a.arg))
            if d: self.defs.setdefault(a.arg, []).append(('dom', d))

    def bind_iter(self, target, it):
        # enumerate(X) -> (pos, elem); range(len(X)) -> pos; X -> elem
        if isinstance(it, ast.Call) and dotted_last(it.func) == 'enumerate' and isinstance(target, ast.Tuple):
            src = dotted_last(it.args[0])
            if src in ('station_ids',):
                self.defs.setdefault(target.elts[0].id, []).append(('dom', 'STATION_POS'))
                if isinstance(target.elts[1], ast.Name): self.defs.setdefault(target.elts[1].id, []).append(('dom', 'STATION_ID'))
            else:
                self.defs.setdefault(target.elts[0].id, []).append(('dom', f'POS_OF({src})'))
        elif isinstance(it, ast.Call) and dotted_last(it.func) == 'range' and it.args and isinstance(it.args[0], ast.Call) and dotted_last(it.args[0].func) == 'len':
            src = dotted_last(it.args[0].args[0])
            src = self.alias(src)
            dom = 'STATION_POS' if src in ('station_ids', 'ids') or CONTAINERS.get(src) == 'STATION_POS' else f'POS_OF({src})'
            if isinstance(target, ast.Name): self.defs.setdefault(target.id, []).append(('dom', dom))
        elif isinstance(target, ast.Name):
            src = dotted_last(it)
            if src in ('station_ids',): self.defs.setdefault(target.id, []).append(('dom', 'STATION_ID'))
            elif isinstance(it, ast.Name) and it.id == 'new_schedule': self.defs.setdefault(target.id, []).append(('dom', 'STATION_ID'))

    def alias(self, name):
        for k, v in self.defs.get(name, []):
            if k == 'assign' and dotted_last(v) == 'station_ids': return 'station_ids'
        return name

    def dom(self, e, depth=0):
        if isinstance(e, ast.Call):
            f = dotted_last(e.func)
            if f in POS_CALLS: return 'STATION_POS'
            if f == 'index' and isinstance(e.func, ast.Attribute) and dotted_last(e.func.value) == 'station_ids': return 'STATION_POS'
            return None
        if isinstance(e, ast.Attribute):
            if e.attr == 'station_id': return 'STATION_ID'
            if e.attr == 'session_id': return 'SESSION_ID'
            if e.attr in ('_iteration', 'iteration'): return 'TIME'
            return None
        if isinstance(e, ast.Subscript) and dotted_last(e.value) == '_station_ids_dict': return 'STATION_POS'
        if isinstance(e, ast.BinOp): return self.dom(e.left, depth) or self.dom(e.right, depth)
        if isinstance(e, ast.Name) and depth < 4:
            ds = set()
            for k, v in self.defs.get(e.id, []):
                ds.add(v if k == 'dom' else self.dom(v, depth + 1))
            if e.id in ('station_id', 'evse_id') and not ds: ds.add('STATION_ID')
            if e.id == 'session_id' and not ds: ds.add('SESSION_ID')
            return ds.pop() if len(ds) == 1 else (None if not ds else f'MIXED{sorted(map(str, ds))}')
        return None


n_ok = n_bad = n_unk = 0
for p in sorted(ROOT.rglob('*.py')):
    if '/tests/' in str(p): continue
    t = ast.parse(p.read_text())
    for f in ast.walk(t):
        if not isinstance(f, ast.FunctionDef): continue
        F = Fn(f, p)
        for n in ast.walk(f):
            cont, idx = None, None
            if isinstance(n, ast.Subscript):
                cont, idx = dotted_last(n.value), n.slice
            elif isinstance(n, ast.Call) and isinstance(n.func, ast.Attribute) and n.func.attr == 'get' and n.args:
                cont, idx = dotted_last(n.func.value), n.args[0]
            elif isinstance(n, ast.Compare) and len(n.ops) == 1 and isinstance(n.ops[0], (ast.In, ast.NotIn)):
                cont, idx = dotted_last(n.comparators[0]), n.left
            if cont is None: continue
            want = SCOPED.get((f.name, cont), CONTAINERS.get(cont))
            if want is None: continue
            if isinstance(idx, ast.Tuple): idx = idx.elts[0]
            if isinstance(idx, ast.Slice): continue
            got = F.dom(idx)
            tag = 'ok ' if got == want else ('UNK' if got is None else 'BAD')
            n_ok += tag == 'ok '; n_bad += tag == 'BAD'; n_unk += tag == 'UNK'
            if tag != 'ok ':
                print(f"{tag} {str(p.relative_to('/repo')):50s} {f.name:30s} {cont}[{ast.unparse(idx)}] want={want} got={got}")
print("ok", n_ok, "bad", n_bad, "unknown", n_unk)
